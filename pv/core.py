"""Check framework: obligations, findings, known-findings handling, evidence (DESIGN §4)."""
import importlib
import json
import os
import re
import sys
import time

from . import extract, flow, ir

VERIF = extract.VERIF
KNOWN = os.path.join(VERIF, "known_findings.json")
EVIDENCE_DIR = os.path.join(VERIF, "evidence")


class Finding(object):
    def __init__(self, prop, rule, key, site, reason, witness=None):
        self.prop = prop
        self.rule = rule
        self.key = key          # stable instance key, no line numbers
        self.site = site        # file:line (for the reader only)
        self.reason = reason
        self.witness = witness or []

    def as_json(self):
        return {"property": self.prop, "rule": self.rule, "key": self.key, "site": self.site,
                "reason": self.reason, "witness": self.witness}


class Ctx(object):
    """What a rule module sees: the program facts plus bookkeeping for obligations."""

    def __init__(self, prop, prog, tier, config="default"):
        self.prop = prop
        self.prog = prog
        self.tier = tier
        self.config = config
        self.findings = []
        self.obligations = []   # (rule key, ok, site, detail)
        self.samples = []
        self.sites_inspected = 0
        self._an = {}
        self._gr = {}
        self._cg = None
        self.notes = []
        self.undecided_list = []

    # ---- lookups -------------------------------------------------------------------------
    def body(self, key_regex, required=True, rule="anchor"):
        bs = self.prog.find_bodies(key_regex)
        if len(bs) != 1:
            if required:
                self.fail(rule, "anchor-missing:" + key_regex, "",
                          "anchor-missing: expected exactly one body matching %s, found %d" % (key_regex, len(bs)))
            return bs[0] if bs else None
        return bs[0]

    def an(self, body):
        a = self._an.get(body.key)
        if a is None:
            a = flow.Analyzer(body, self.prog)
            self._an[body.key] = a
        return a

    @property
    def cg(self):
        if self._cg is None:
            from . import callgraph
            self._cg = callgraph.CallGraph(self.prog)
        return self._cg

    def graph(self, body, flags=None):
        """CFG view used by the cut queries; by default refined by the body's constant-only bool locals"""
        if flags is None:
            from . import sample
            flags = sample.scenario_flags(body)     # constant-carrying bools and literally assigned enum tags
            if len(flags) > 24:
                flags = flags[:24]
        k = (body.key, tuple(flags or ()))
        g = self._gr.get(k)
        if g is None:
            g = flow.Graph(body, flags)
            if len(g.nodes) > 40 * max(1, len(body.blocks)):
                g = flow.Graph(body, [])
            self._gr[k] = g
        return g

    def captured_flag(self, body, canonical):
        """(1, raw field name) of the captured parameter whose canonical (pinned-tree) name is `canonical`"""
        an = self.an(body)
        for raw, canon_name in getattr(an, "_canon", {}).items():
            if canon_name == canonical:
                return (1, raw)
        return (1, canonical)

    def graph_with(self, body, extra_flags=(), pinned=None, callhook=None):
        """CFG refined by the body's constant-carrying locals (as graph()) plus the given flags / pinned values"""
        from . import sample
        base = [f for f in sample.scenario_flags(body)][:28]
        flags = list(extra_flags) + [f for f in base if f not in extra_flags]
        g = flow.Graph(body, flags, pinned=pinned, callhook=callhook)
        if len(g.nodes) > 60 * max(1, len(body.blocks)):
            g = flow.Graph(body, list(extra_flags), pinned=pinned, callhook=callhook)
        return g

    # ---- obligations ---------------------------------------------------------------------
    def ok(self, rule, key, site="", detail=""):
        self.obligations.append({"rule": rule, "key": key, "ok": True, "site": site, "detail": detail})
        if len(self.samples) < 12 and detail:
            self.samples.append({"rule": rule, "instance": key, "site": site, "holds": True, "detail": detail[:400]})

    def fail(self, rule, key, site, reason, witness=None):
        self.obligations.append({"rule": rule, "key": key, "ok": False, "site": site, "detail": reason})
        self.findings.append(Finding(self.prop, rule, key, site, reason, witness))

    def undecided(self, rule, key, site, reason):
        """the construct this rule is about is implemented in a way none of the rule's recognisers covers: the rule
        neither holds nor fails. Reported (UNDECIDED line, evidence), never an alarm."""
        self.undecided_list.append({"rule": rule, "instance": key, "site": site, "reason": reason})

    def check(self, cond, rule, key, site="", reason="", detail="", witness=None):
        if cond:
            self.ok(rule, key, site, detail or reason)
        else:
            self.fail(rule, key, site, reason, witness)
        return cond

    def floor(self, rule, what, count, floor, site=""):
        """fail-closed anchor: a rule that matches fewer sites than were confirmed by hand is a finding"""
        self.sites_inspected += count
        return self.check(count >= floor, rule, "floor:" + what, site,
                          reason="anchor-missing: %s: found %d, floor %d (counted by hand on the pinned tree)" % (what, count, floor),
                          detail="%s: %d site(s) (floor %d)" % (what, count, floor))

    def exact(self, rule, what, count, expected, site=""):
        self.sites_inspected += count
        return self.check(count == expected, rule, "count:" + what, site,
                          reason="%s: found %d, expected exactly %d" % (what, count, expected),
                          detail="%s: %d site(s)" % (what, count))


def load_known():
    if not os.path.exists(KNOWN):
        return {"findings": [], "fixed": []}
    with open(KNOWN) as fh:
        return json.load(fh)


def run(prop, tier="quick", replay=None, repo=None, quiet=False, write_evidence=True, config="default",
        cache_root=None, target_dir=None):
    """Evaluate one property. Returns (exit_code, findings, evidence dict)."""
    t0 = time.time()
    seed = int(os.environ.get("VERIF_SEED", "0") or 0)
    out = []

    def say(s):
        out.append(s)
        if not quiet:
            print(s)
            sys.stdout.flush()

    d, h, info = extract.ensure_facts(config, repo=repo, cache_root=cache_root, target_dir=target_dir)
    if info.get("returncode", 0) != 0:
        # the tree does not build: nothing can be decided. This is not a property violation.
        say("EXTRACTION-FAILED property=%s (cargo +nightly check did not succeed on the current tree)" % prop)
        say(info.get("error", "")[-3000:])
        return 2, [], None
    prog = ir.Program(d)
    ctx = Ctx(prop, prog, tier, config)
    mod = importlib.import_module("pv.rules.%s" % prop.lower())
    try:
        mod.check(ctx)
    except Exception as e:  # a crash of the checker is reported as such, never as a pass
        import traceback
        traceback.print_exc()
        say("CHECKER-ERROR property=%s %s: %s" % (prop, type(e).__name__, e))
        return 3, [], None

    extra_cfg = []
    if tier == "thorough" and repo is None:
        extra_cfg = thorough(prop, mod, ctx, say)

    known = load_known()
    known_keys = {}
    for k in known.get("findings", []):
        if k["property"] == prop:
            known_keys[k["key"]] = k
    new = []
    seen_known = []
    dedup = set()
    for f in ctx.findings:
        if f.key in dedup:
            continue
        dedup.add(f.key)
        if f.key in known_keys:
            seen_known.append(f)
        else:
            new.append(f)
    if replay:
        try:
            want = json.load(open(replay))
            keys = set(x["key"] for x in want.get("findings", []))
            new = [f for f in new if f.key in keys]
        except Exception as e:
            say("cannot read replay file %s: %s" % (replay, e))

    st = prog.stats()
    n_ob = len(ctx.obligations)
    n_ok = sum(1 for o in ctx.obligations if o["ok"])
    say("%s [%s] facts=%s crates=%d bodies=%d blocks=%d call_sites=%d" % (
        prop, tier, h, len(st["crates"]), st["bodies"], st["blocks"], st["call_sites"]))
    say("%s obligations=%d discharged=%d known=%d new=%d sites_inspected=%d" % (
        prop, n_ob, n_ok, len(seen_known), len(new), ctx.sites_inspected))
    for f in seen_known:
        say("KNOWN-FINDING: property=%s %s %s — %s" % (prop, f.key, f.site, known_keys[f.key].get("what", f.reason)))
    # known findings that no longer fire are reported for information (not an error)
    fired = set(f.key for f in seen_known)
    for k in known_keys:
        if k not in fired:
            say("note: known finding %s did not fire on this tree (repaired or construct gone)" % k)
    for u in ctx.undecided_list:
        say("UNDECIDED: property=%s %s %s — %s" % (prop, u["instance"], u["site"], u["reason"]))
    for f in new:
        say("FINDING property=%s rule=%s key=%s site=%s\n    %s" % (prop, f.rule, f.key, f.site, f.reason))
        for w in f.witness[:12]:
            say("      via %s" % (w,))

    rules = sorted(set(o["rule"] for o in ctx.obligations))
    wall = round(time.time() - t0, 2)
    distinct = len(set((o["rule"], o["key"]) for o in ctx.obligations if o["site"] or o["detail"]))
    ev = {
        "property_id": prop,
        "tier": tier,
        "seed": seed,
        "level": "other",
        "coverage": {
            "explanation": getattr(mod, "EXPLANATION", "") or ("static rules " + ", ".join(rules)),
            "obligations": n_ob,
            "discharged": n_ok,
            "evaluations": max(n_ob, 1),
            "distinct_nontrivial": distinct,
            "rule": "one evaluation = one rule instance (obligation) decided on the type-checked MIR of /repo; "
                    "non-trivial = the instance matched at least one concrete construct (site or detail recorded); "
                    "distinct by (rule, instance key)",
            "samples": ctx.samples[:12] + [f.as_json() for f in (new + seen_known)[:6]],
            "rules": rules,
            "analysed": {"facts_hash": h, "config": [config] + extra_cfg, "crates": st["crates"],
                         "bodies": st["bodies"], "blocks": st["blocks"], "call_sites": st["call_sites"],
                         "sites_inspected": ctx.sites_inspected, "extraction": info},
            "decided_clauses": getattr(mod, "DECIDED", []),
            "undecided_clauses": getattr(mod, "UNDECIDED", []),
            "trusted_base": getattr(mod, "TRUSTED", []) + [
                "rustc nightly MIR construction and name resolution", "driver/ and pv/ themselves"],
            "checker_cmd": "./check %s --tier %s" % (prop, tier),
            "known_findings_matched": [f.key for f in seen_known],
            "exhaustive": False,
            "selftest": getattr(ctx, "selftest", None),
            "notes": ctx.notes,
            "undecided": ctx.undecided_list,
        },
        "assumptions": getattr(mod, "TRUSTED", []),
        "wall_s": wall,
        "violations": len(new),
    }
    if write_evidence:
        os.makedirs(EVIDENCE_DIR, exist_ok=True)
        with open(os.path.join(EVIDENCE_DIR, "%s.json" % prop), "w") as fh:
            json.dump(ev, fh, indent=1, sort_keys=True, default=str)
    code = 0
    if new:
        rp = os.path.join(EVIDENCE_DIR, "%s.violation.json" % prop)
        if write_evidence:
            with open(rp, "w") as fh:
                json.dump({"property": prop, "facts_hash": h, "findings": [f.as_json() for f in new]}, fh, indent=1)
        say("VIOLATION property=%s replay=%s" % (prop, rp))
        code = 1
    elif getattr(ctx, "selftest_failed", False):
        say("CHECKER-SELFTEST-FAILED property=%s" % prop)
        code = 4
    else:
        rp = os.path.join(EVIDENCE_DIR, "%s.violation.json" % prop)
        if write_evidence and os.path.exists(rp):
            os.remove(rp)
    return code, new, ev


def thorough(prop, mod, ctx, say):
    """thorough tier (DESIGN §4.1): (a) re-evaluate the rules on the facts of the other build configurations;
    (b) checker self-validation: every seeded mutant of this property must be reported, every benign refactoring
    must stay silent. A failed self-validation is CHECKER-SELFTEST-FAILED, never a VIOLATION."""
    import glob
    import subprocess
    extra = []
    base_keys = sorted(set(f.key for f in ctx.findings))
    # (a) other configurations
    cfgs = ["all-targets"] + (["packets-server", "packets-client"] if prop == "C09" else [])
    cfg_report = {}
    for cfg in cfgs:
        d, h, info = extract.ensure_facts(cfg)
        if info.get("returncode", 0) != 0:
            cfg_report[cfg] = "not buildable: " + info.get("error", "")[-200:]
            continue
        prog2 = ir.Program(d)
        c2 = Ctx(prop, prog2, "thorough", cfg)
        try:
            mod.check(c2)
            keys2 = sorted(set(f.key for f in c2.findings))
            st2 = prog2.stats()
            cfg_report[cfg] = {"bodies": st2["bodies"], "obligations": len(c2.obligations), "findings": keys2}
            if cfg == "all-targets":
                for k in keys2:
                    if k not in base_keys:
                        f = [x for x in c2.findings if x.key == k][0]
                        f.key = k
                        ctx.findings.append(f)
                        ctx.obligations.append({"rule": f.rule, "key": k + "@all-targets", "ok": False, "site": f.site, "detail": f.reason})
        except Exception as e:
            cfg_report[cfg] = "checker error: %s" % e
            ctx.selftest_failed = True
        extra.append(cfg)
    say("%s thorough: configurations %s" % (prop, json.dumps({k: (v if isinstance(v, str) else {"obligations": v["obligations"], "findings": len(v["findings"])}) for k, v in cfg_report.items()})))
    # (b) self-validation
    sys.path.insert(0, os.path.join(VERIF, "tools"))
    import mutant
    muts = sorted(glob.glob(os.path.join(VERIF, "selftest", prop, "m*.diff"))) + \
        sorted(glob.glob(os.path.join(VERIF, "selftest", "composed", prop + "_*.diff")))   # refactoring + break on top of it
    seeds = []
    for d in sorted(glob.glob(os.path.join(VERIF, "seeded", "*"))):
        try:
            meta = json.load(open(os.path.join(d, "meta.json")))
        except Exception:
            continue
        if meta.get("property") == prop:
            seeds.append(os.path.join(d, "patch.diff"))
    benign = sorted(glob.glob(os.path.join(VERIF, "selftest", prop, "b*.diff"))) + sorted(glob.glob(os.path.join(VERIF, "selftest", "benign", "b*.diff")))
    # behaviour-preserving refactorings written by independent agents, applied where they touch this property's code
    AREA = {"conn": ("C01", "C02", "C03", "C04", "C05", "C06", "C07", "C08", "C10", "C14"), "packets": ("C04", "C06", "C08", "C09"),
            "listener": ("C13", "C14", "C15", "C16", "C17"), "adapters": ("C11", "C12", "C18", "C19", "C20")}
    AREA["codec"] = ("C01", "C02", "C04", "C05", "C06", "C08", "C09", "C10")
    import re as _re
    for pth in sorted(glob.glob(os.path.join(VERIF, "selftest", "benign_agents*", "*.diff"))):
        if prop in AREA.get(_re.sub(r"\d+$", "", os.path.basename(pth).split("_")[0]), ()):
            benign.append(pth)
    # the benign pool has grown to several hundred patches: the thorough tier applies a deterministic sample of at most 40 per property
    # (every k-th of the sorted list), the full pool is run by tools/sweep.py (DESIGN §14.1)
    cap = int(os.environ.get("PV_BENIGN_CAP", "40"))
    if len(benign) > cap:
        step = len(benign) / float(cap)
        benign = [benign[int(i * step)] for i in range(cap)]
    res = {"mutants": {}, "benign": {}, "stale": []}
    failed = []
    import sweep
    allp = muts + seeds + benign
    results = sweep.run_jobs([(p, [prop]) for p in allp], lanes=int(os.environ.get("PV_LANES", "6"))) if allp else {}
    for p in muts + seeds:
        name = os.path.relpath(p, VERIF)
        r = results.get(os.path.abspath(p), {})
        if prop not in r or r[prop][0] == 2:
            res["stale"].append(name)
            continue
        code, keys = r[prop]
        res["mutants"][name] = keys[:4]
        if code != 1 or not keys:
            failed.append("mutant not reported: " + name)
    for p in benign:
        name = os.path.relpath(p, VERIF)
        r = results.get(os.path.abspath(p), {})
        if prop not in r or r[prop][0] == 2:
            res["stale"].append(name)
            continue
        code, keys = r[prop]
        res["benign"][name] = keys[:4]
        if code != 0:
            failed.append("benign refactoring raised an alarm: %s %s" % (name, keys[:3]))
    res["mutants_caught"] = sum(1 for v in res["mutants"].values() if v)
    res["mutants_total"] = len(res["mutants"])
    res["benign_silent"] = sum(1 for v in res["benign"].values() if not v)
    res["benign_total"] = len(res["benign"])
    res["configs"] = cfg_report
    res["failed"] = failed
    ctx.selftest = res
    say("%s thorough: self-validation mutants %d/%d reported, benign %d/%d silent, stale %d" % (
        prop, res["mutants_caught"], res["mutants_total"], res["benign_silent"], res["benign_total"], len(res["stale"])))
    for f in failed:
        say("  SELFTEST: " + f)
    if failed:
        ctx.selftest_failed = True
    return extra

"""Engines A and B of DESIGN §3: flag-refined CFG, cut-reachability (must-pass-through) queries,
guard-edge classification, and backward value provenance (expression trees).

Expressions are nested tuples (hashable):
  ("param", i, name) ("upvar", name) ("const", ty, value) ("fn", def) ("static", def) ("constitem", def)
  ("call", def, resolved, args, site, gargs) ("field", e, name) ("deref", e) ("ref", e) ("variant", e, vname)
  ("agg", ctor, ((fname, e)...), site) ("binop", op, a, b) ("unop", op, a) ("cast", ck, e, to)
  ("discr", e) ("await", e) ("try", e) ("select", site, (f0, f1, ..)) ("select_out", k, site, fk)
  ("phi", (e..)) ("update", fname, e) ("mut", e, (callee..)) ("resume",) ("unknown", why)
"""
import re
import sys
from collections import deque

sys.setrecursionlimit(20000)

STD_VARIANTS = {
    "std::option::Option": ["None", "Some"],
    "core::option::Option": ["None", "Some"],
    "std::result::Result": ["Ok", "Err"],
    "core::result::Result": ["Ok", "Err"],
    "std::task::Poll": ["Ready", "Pending"],
    "core::task::Poll": ["Ready", "Pending"],
    "std::ops::ControlFlow": ["Continue", "Break"],
    "core::ops::ControlFlow": ["Continue", "Break"],
}


def short(defname):
    """strip generic argument lists from a def path: a::B::<T>::f -> a::B::f"""
    out = []
    depth = 0
    i = 0
    s = defname
    while i < len(s):
        c = s[i]
        if c == "<" and i >= 2 and s[i - 2:i] == "::":
            # turbofish generic list: drop, including the preceding ::
            depth += 1
            out = out[:-2]
        elif depth and c == "<":
            depth += 1
        elif depth and c == ">" and (i == 0 or s[i - 1] != "-"):
            depth -= 1
        elif not depth:
            out.append(c)
        i += 1
    return "".join(out)


def auto_flags(body):
    """bool locals that only ever hold a constant or a copy of another such local (results of `&&`/`||`
    materialised into a variable, verdicts returned by an inlined helper). Tracking them exactly removes the
    infeasible paths a path-insensitive walk would see. Locals touched by tracing expansions are left out."""
    cand = {}
    bad = set()
    for b in body.blocks:
        if b.cleanup:
            continue
        for s in b.stmts:
            if s.kind != "assign" or not s.place.is_local():
                if s.kind == "assign" and s.place.local in cand:
                    bad.add(s.place.local)
                continue
            l = s.place.local
            if body.locals[l].get("s") != "bool":
                continue
            if body.is_noise(s):
                bad.add(l)
                continue
            cand.setdefault(l, []).append(s)
        t = b.term
        if t.kind == "call" and t.dest is not None and t.dest.is_local() and body.locals[t.dest.local].get("s") == "bool":
            bad.add(t.dest.local)
    flags = set(l for l in cand if l not in bad)
    changed = True
    while changed:
        changed = False
        for l in list(flags):
            for s in cand[l]:
                ok = s.rv.k == "use" and s.rv.ops and (s.rv.ops[0].const_bool() is not None or (
                    s.rv.ops[0].place is not None and s.rv.ops[0].place.is_local() and s.rv.ops[0].place.local in flags))
                if not ok:
                    flags.discard(l)
                    changed = True
                    break
    # keep only flags that have at least one constant definition (directly or through a copy chain)
    return sorted(flags)


def degeneric(s):
    """remove every balanced <...> generic-argument group that follows an identifier or `::`"""
    out = []
    depth = 0
    for i, c in enumerate(s):
        if c == "<" and (depth or (out and (out[-1].isalnum() or out[-1] in "_:"))):
            depth += 1
            continue
        if depth and c == ">" and s[i - 1] != "-":
            depth -= 1
            continue
        if not depth:
            out.append(c)
    r = "".join(out)
    while r.endswith("::"):
        r = r[:-2]
    return r.replace("::::", "::")


class Graph(object):
    """A (possibly flag-refined) view of a body's CFG. Nodes are ints; node_bb maps to MIR blocks."""

    def __init__(self, body, flags=None, init=None, pinned=None, hook=None, callhook=None, swhook=None):
        self.body = body
        self.flags = list(flags or [])
        self.pinned = dict(pinned or {})
        self.hook = hook     # hook(bb, stmt_index, stmt) -> bool | None: value of a non-constant flag definition
        self.callhook = callhook   # callhook(bb, term) -> bool | None: value of a call result stored in a flag
        self.swhook = swhook       # swhook(bb) -> iterable of allowed target blocks | None
        self.alias = {}      # local or (local, field) that always holds a copy of a pinned (never reassigned) flag -> flag index
        self._aliases()
        self.node_of = {}
        self.nodes = []      # (bb, valuation)
        self.succ = []
        self.edge_label = {}
        self._build(init)

    def _aliases(self):
        """copies of a pinned captured flag: `x = copy (_1.flag)`, and the same field of an environment built from such a copy
        (a helper merged into this body receives the flag as its own captured variable)"""
        keys = [(i, f) for i, f in enumerate(self.flags) if isinstance(f, tuple) and f in self.pinned]
        if not keys:
            return
        body = self.body
        defs = {}
        for b in body.blocks:
            if b.cleanup:
                continue
            for s in b.stmts:
                if s.kind == "assign" and s.place.is_local():
                    defs.setdefault(s.place.local, []).append(s)
        for i, f in keys:
            self.alias[f] = i
        grew = True
        while grew:
            grew = False
            for l, ds in defs.items():
                if l in self.alias or l in self.flags or len(ds) != 1:
                    continue
                s = ds[0]
                if s.rv.k == "use" and s.rv.ops and s.rv.ops[0].place is not None:
                    pl = s.rv.ops[0].place
                    fs = pl.fields()
                    key = pl.local if pl.is_local() else ((pl.local, fs[-1]) if fs and len(fs) == 1 else None)
                    if key in self.alias:
                        self.alias[l] = self.alias[key]
                        grew = True
                elif s.rv.k == "agg" and s.rv.j.get("ak") in ("coroutine", "closure"):
                    for fname, op in zip(s.rv.j.get("fields", []), s.rv.ops):
                        if op.place is not None and op.place.is_local() and op.place.local in self.alias and (l, fname) not in self.alias:
                            self.alias[(l, fname)] = self.alias[op.place.local]
                            grew = True

    def _flag_effects(self, blk, val):
        """valuation after executing the statements of blk"""
        if not self.flags:
            return val
        val = list(val)
        for si, s in enumerate(blk.stmts):
            if s.kind == "assign" and s.place.is_local() and s.place.local in self.flags:
                i = self.flags.index(s.place.local)
                b = s.rv.ops[0].const_bool() if (s.rv.k == "use" and s.rv.ops) else None
                if b is None and s.rv.k == "use" and s.rv.ops and s.rv.ops[0].place is not None and s.rv.ops[0].place.is_local() \
                        and s.rv.ops[0].place.local in self.flags:
                    b = val[self.flags.index(s.rv.ops[0].place.local)]
                if b is None and s.rv.k == "unop" and s.rv.j.get("op") == "Not" and s.rv.ops[0].place is not None \
                        and s.rv.ops[0].place.is_local() and s.rv.ops[0].place.local in self.flags:
                    x = val[self.flags.index(s.rv.ops[0].place.local)]
                    b = None if x is None else (not x)
                if b is None and s.rv.k == "agg" and s.rv.j.get("ak") == "adt" and "vidx" in s.rv.j:
                    b = ("tag", s.rv.j["vidx"])     # enum-typed flag: remember which variant was stored
                    if len(s.rv.ops) == 1 and s.rv.ops[0].place is not None and s.rv.ops[0].place.is_local() \
                            and s.rv.ops[0].place.local in self.flags:
                        inner = val[self.flags.index(s.rv.ops[0].place.local)]
                        if isinstance(inner, tuple):
                            b = ("tag", s.rv.j["vidx"], inner)      # Poll::Ready(Some(..)): the payload's own tag travels along
                if b is None and s.rv.k == "use" and s.rv.ops and s.rv.ops[0].place is not None and not s.rv.ops[0].place.is_local() \
                        and s.rv.ops[0].place.local in self.flags and len(s.rv.ops[0].place.proj) == 2 \
                        and isinstance(s.rv.ops[0].place.proj[0], dict) and "dc" in s.rv.ops[0].place.proj[0]:
                    outer = val[self.flags.index(s.rv.ops[0].place.local)]
                    if isinstance(outer, tuple) and len(outer) == 3:
                        b = outer[2]        # `(p as Ready).0`: the payload's tag
                if b is None and self.hook is not None:
                    b = self.hook(blk.idx, si, s)
                if b is None and s.place.local in self.pinned:
                    b = self.pinned[s.place.local]
                val[i] = b
        t = blk.term
        if t.kind == "call" and t.dest is not None and t.dest.is_local() and t.dest.local in self.flags:
            r = self.callhook(blk.idx, t) if self.callhook is not None else None
            if r is None and t.callee and short(t.callee["def"]).endswith("Try::branch") and t.args and t.args[0].place is not None \
                    and t.args[0].place.is_local() and t.args[0].place.local in self.flags:
                a = val[self.flags.index(t.args[0].place.local)]
                if isinstance(a, tuple) and a[0] == "tag":
                    ty = self.body.locals[t.args[0].place.local].get("s", "")
                    if "option::Option<" in ty:
                        r = ("tag", 0 if a[1] == 1 else 1)      # Some -> Continue(0), None -> Break(1)
                    elif "result::Result<" in ty:
                        r = ("tag", a[1])                        # Ok(0) -> Continue(0), Err(1) -> Break(1)
            if r is None and t.callee and short(t.callee["def"]).endswith("FromResidual::from_residual"):
                ty = self.body.locals[t.dest.local].get("s", "")
                if "result::Result<" in ty:
                    r = ("tag", 1)      # the error of a `?` re-wrapped: always Err
                elif "option::Option<" in ty:
                    r = ("tag", 0)
            val[self.flags.index(t.dest.local)] = r
        return tuple(val)

    def _switch_flag(self, blk):
        """if blk's switch tests a tracked flag (directly or through a copy made in this block),
        return (flag_index, negated)"""
        t = blk.term
        if t.kind != "switch" or t.discr.place is None or not t.discr.place.is_local():
            return None
        l = t.discr.place.local
        neg = False
        seen = 0
        while seen < 4:
            if l in self.flags:
                return (self.flags.index(l), neg)
            if l in self.alias:
                return (self.alias[l], neg)
            d = None
            for s in reversed(blk.stmts):
                if s.kind == "assign" and s.place.is_local() and s.place.local == l:
                    d = s
                    break
            if d is None:
                return None
            if d.rv.k == "discr" and d.rv.place is not None and d.rv.place.is_local() and d.rv.place.local in self.flags and not neg:
                return (self.flags.index(d.rv.place.local), "tag")
            if d.rv.k == "discr" and d.rv.place is not None and not neg and [p for p in d.rv.place.proj if p != "*"] == [] \
                    and d.rv.place.local in self.alias:
                return (self.alias[d.rv.place.local], "tag")
            if d.rv.k == "discr" and d.rv.place is not None and not d.rv.place.is_local() and not neg:
                fs = d.rv.place.fields()
                key = (d.rv.place.local, fs[-1]) if fs else None
                if key in self.flags:
                    return (self.flags.index(key), "tag")
                if key in self.alias:
                    return (self.alias[key], "tag")
            if d.rv.k == "use" and d.rv.ops[0].place is not None and not d.rv.ops[0].place.is_local():
                pl = d.rv.ops[0].place
                fs = pl.fields()
                key = (pl.local, fs[-1]) if fs else None
                if key in self.flags:
                    return (self.flags.index(key), neg)
                if key in self.alias:
                    return (self.alias[key], neg)
                return None
            if d.rv.k == "use" and d.rv.ops[0].place is not None and d.rv.ops[0].place.is_local():
                l = d.rv.ops[0].place.local
            elif d.rv.k == "unop" and d.rv.j["op"] == "Not" and d.rv.ops[0].place is not None \
                    and d.rv.ops[0].place.is_local():
                l = d.rv.ops[0].place.local
                neg = not neg
            else:
                return None
            seen += 1
        return None

    def _build(self, init):
        body = self.body
        init = tuple(init) if init is not None else tuple(self.pinned.get(f) for f in self.flags)
        start = (0, init)
        self.node_of[start] = 0
        self.nodes.append(start)
        self.succ.append([])
        work = deque([0])
        while work:
            n = work.popleft()
            bb, val = self.nodes[n]
            blk = body.blocks[bb]
            if blk.cleanup:
                continue
            out_val = self._flag_effects(blk, val)
            targets = list(blk.term.successors())
            sf = self._switch_flag(blk)
            if sf is not None:
                fi, neg = sf
                v = out_val[fi]
                if neg == "tag":
                    if isinstance(v, tuple) and v[0] == "tag":
                        t = blk.term
                        keep = [tb for value, tb in t.arms if value == v[1]]
                        if not keep:
                            keep = [t.otherwise]
                        targets = keep
                elif v is not None and not isinstance(v, tuple):
                    truth = (not v) if neg else v
                    t = blk.term
                    keep = []
                    for value, tb in t.arms:
                        if (value != 0) == truth:
                            keep.append(tb)
                    # otherwise covers "everything else": for bool, arms are [0: false_bb], otherwise = true
                    arm_vals = [a for a, _ in t.arms]
                    if truth and 1 not in arm_vals:
                        keep.append(t.otherwise)
                    if (not truth) and 0 not in arm_vals:
                        keep.append(t.otherwise)
                    targets = keep
            if self.swhook is not None and blk.term.kind == "switch":
                allowed = self.swhook(bb)
                if allowed is not None:
                    allowed = set(allowed)
                    targets = [tb for tb in targets if tb in allowed]
            for tb in targets:
                key = (tb, out_val)
                m = self.node_of.get(key)
                if m is None:
                    m = len(self.nodes)
                    self.node_of[key] = m
                    self.nodes.append(key)
                    self.succ.append([])
                    work.append(m)
                if m not in self.succ[n]:
                    self.succ[n].append(m)

    # ---- queries -------------------------------------------------------------------------
    def nodes_of_bb(self, bb):
        return [n for n, (b, _) in enumerate(self.nodes) if b == bb]

    def bb(self, n):
        return self.nodes[n][0]

    def val(self, n):
        return self.nodes[n][1]

    def reachable(self, starts=None, cut_nodes=(), cut_edges=(), stop_nodes=()):
        """forward reachability from starts (default entry) avoiding cut nodes / cut edges (bb pairs)"""
        cut_nodes = set(cut_nodes)
        cut_edges = set(cut_edges)
        stop_nodes = set(stop_nodes)
        seen = set()
        starts = [0] if starts is None else list(starts)
        work = deque()
        for s in starts:
            if self.bb(s) not in cut_nodes:
                seen.add(s)
                work.append(s)
        while work:
            n = work.popleft()
            if self.bb(n) in stop_nodes:
                continue
            for m in self.succ[n]:
                if m in seen:
                    continue
                if self.bb(m) in cut_nodes:
                    continue
                if (self.bb(n), self.bb(m)) in cut_edges:
                    continue
                seen.add(m)
                work.append(m)
        return seen

    def path(self, starts, goal_bbs, cut_nodes=(), cut_edges=(), goal_val=None):
        """shortest path (list of bbs) from starts to any goal bb avoiding cuts, or None.
        goal_val: optional predicate on the flag valuation of the goal node"""
        cut_nodes = set(cut_nodes)
        cut_edges = set(cut_edges)
        goal_bbs = set(goal_bbs)
        prev = {}
        work = deque()
        for s in ([0] if starts is None else starts):
            if self.bb(s) in cut_nodes:
                continue
            prev[s] = None
            work.append(s)
        while work:
            n = work.popleft()
            if self.bb(n) in goal_bbs and (goal_val is None or goal_val(self.val(n))):
                p = []
                while n is not None:
                    p.append(self.bb(n))
                    n = prev[n]
                return list(reversed(p))
            for m in self.succ[n]:
                if m in prev or self.bb(m) in cut_nodes or (self.bb(n), self.bb(m)) in cut_edges:
                    continue
                prev[m] = n
                work.append(m)
        return None

    def must_pass(self, site_bb, cut_nodes=(), cut_edges=(), starts=None, goal_val=None):
        """True iff every path entry -> site_bb passes a cut node or a cut edge.
        Returns (ok, witness_path)"""
        p = self.path(starts, [site_bb], cut_nodes, cut_edges, goal_val)
        return (p is None), p

    def exits(self):
        return [n for n in range(len(self.nodes)) if self.body.blocks[self.bb(n)].term.kind == "return"]


def upvar_sources(prog, body):
    """{captured field name: source path} for a closure / async-block body: the path (from a parameter or an outer
    capture of the constructing body) of the value each captured variable holds; None when it is not such a path"""
    cache = getattr(prog, "_upvar_src_cache", None)
    if cache is None:
        cache = prog._upvar_src_cache = {}
    if body.key in cache:
        return cache[body.key]
    cache[body.key] = {}
    parent = prog.bodies.get(body.parent) if body.parent else None
    out = {}
    if parent is not None:
        pan = Analyzer(parent, prog)
        for blk in parent.blocks:
            if blk.cleanup:
                continue
            for i, st in enumerate(blk.stmts):
                if st.kind == "assign" and st.rv.k == "agg" and st.rv.j.get("closure") == body.key:
                    for n, op in zip(st.rv.j.get("fields", []), st.rv.ops):
                        e = pan.operand_expr(op, (blk.idx, i), 0)
                        out[n] = _src_path(e)
    cache[body.key] = out
    return out


def _src_path(e):
    fs = []
    for _ in range(40):
        e = strip(e)
        if e[0] == "field":
            b = strip(e[1])
            if b[0] == "env":
                nm = e[2][6:] if e[2].startswith("_ref__") else e[2]
                return "c:" + ".".join([nm] + list(reversed(fs)))
            fs.append(e[2])
            e = e[1]
        elif e[0] == "param":
            return "p:" + ".".join([str(e[2])] + list(reversed(fs)))
        elif e[0] == "cell":
            e = e[3]
        else:
            return None
    return None


class Analyzer(object):
    """Per-body analyses: definitions index, expression trees, guard classification."""

    MAX_DEPTH = 400

    def __init__(self, body, prog=None):
        self.body = body
        self.prog = prog
        self.defs = {}       # local -> list of (bb, idx or 'term', kind, place)
        self.mutborrows = {}  # local -> list of (bb, idx, tmp_local)
        self.mem_writes = []  # assignments through a dereference: (bb, idx, stmt)
        self._memo = {}
        self._cell_off = False
        self._canon = self._canon_params()
        self._index()

    def _canon_params(self):
        """current parameter name -> canonical name (spec/param_names.json), by position, for this body or the
        fn whose async/closure body this is"""
        prog = self.prog
        if prog is None:
            return {}
        table = getattr(prog, "_param_spec", None)
        if table is None:
            import json as _json
            import os as _os
            path = _os.path.join(_os.path.dirname(_os.path.dirname(_os.path.abspath(__file__))), "spec", "param_names.json")
            try:
                table = _json.load(open(path))["fns"]
            except Exception:
                table = {}
            prog._param_spec = table
        b = self.body
        for _ in range(4):
            if b is None:
                return {}
            if b.kind in ("Fn", "AssocFn"):
                break
            b = prog.lib_bodies.get(b.parent) if b.parent else None
        if b is None or b.key not in table:
            return {}
        want = table[b.key]
        have = [b.local_name(i) for i in range(1, b.arg_count + 1)]
        if len(want) != len(have):
            return {}
        out = {h: w for h, w in zip(have, want) if h and h != w}
        out.update(self._canon_upvars())
        return out

    def _canon_upvars(self):
        """current captured-variable name -> name on the pinned tree (spec/upvar_names.json), identified by WHAT is
        captured (the path from a parameter / outer capture), so renaming a local that a closure or async block captures
        does not change any verdict"""
        prog = self.prog
        body = self.body
        if prog is None or body.kind in ("Fn", "AssocFn") or not body.parent:
            return {}
        table = getattr(prog, "_upvar_spec", None)
        if table is None:
            import json as _json
            import os as _os
            path = _os.path.join(_os.path.dirname(_os.path.dirname(_os.path.abspath(__file__))), "spec", "upvar_names.json")
            try:
                table = _json.load(open(path))["closures"]
            except Exception:
                table = {}
            prog._upvar_spec = table
        spec = table.get(body.key)
        if not spec:
            return {}
        cur = upvar_sources(prog, body)
        out = {}
        for n, src in cur.items():
            w = spec.get(src) if src else None
            if w and w != n:
                out[n] = w
        return out

    def _index(self):
        for b in self.body.blocks:
            if b.cleanup:
                continue
            for i, s in enumerate(b.stmts):
                if s.kind in ("assign", "setdiscr"):
                    if "*" not in s.place.proj:
                        # a write through a reference stored in the local defines the pointee, not the local
                        self.defs.setdefault(s.place.local, []).append((b.idx, i, s))
                    else:
                        self.mem_writes.append((b.idx, i, s))
                    if s.kind == "assign" and s.rv.k in ("ref", "rawptr") and "Mut" in s.rv.j["bk"]:
                        self.mutborrows.setdefault(s.rv.place.local, []).append((b.idx, i, s))
            t = b.term
            if t.kind == "call" and t.dest is not None and "*" not in t.dest.proj:
                self.defs.setdefault(t.dest.local, []).append((b.idx, "term", t))
            if t.kind == "yield":
                p = t.j["resume_arg"]
                self.defs.setdefault(p["l"], []).append((b.idx, "term", t))

    # ---- expression construction ---------------------------------------------------------
    def const_expr(self, c):
        if "fn" in c:
            return ("fn", c["fn"]["def"])
        if "static" in c:
            return ("static", c["static"])
        if "uneval" in c:
            if c.get("promoted") is not None:
                pk = "%s::{promoted#%d}" % (c.get("uneval_key"), c["promoted"])
                pb = self.prog.lib_bodies.get(pk) if self.prog is not None else None
                if pb is None and self.prog is not None:
                    pb = self.prog.bodies.get(pk)
                if pb is not None:
                    cache = getattr(self.prog, "_promoted_cache", None)
                    if cache is None:
                        cache = self.prog._promoted_cache = {}
                    if pk not in cache:
                        cache[pk] = ("unknown", "promoted-cycle")
                        pa = Analyzer(pb, self.prog)
                        es = [pa.local_expr(0, (b.idx, "term"), 0) for b in pb.blocks
                              if b.term.kind == "return" and not b.cleanup]
                        cache[pk] = pa._phi(es) if es else ("unknown", "promoted")
                    return cache[pk]
                return ("const", c["ty"], "promoted:" + c["text"])
            v = None
            if self.prog is not None:
                v = self.prog.const_value(c.get("uneval_key")) if c.get("uneval_key") else None
            if v is not None:
                from . import inline
                _, pconsts = inline.pinned()
                if pconsts is not None and short(c["uneval"]) not in pconsts:
                    # a constant introduced after the pinned tree: fold it to its value
                    return ("const", c["ty"], v)
            return ("constitem", c["uneval"], v)
        for k in ("int", "bool", "str", "char", "float", "bigint"):
            if k in c:
                return ("const", c["ty"], c[k])
        return ("const", c["ty"], c.get("text"))

    def operand_expr(self, op, point, depth=0):
        if op.place is None:
            return self.const_expr(op.const)
        return self.place_expr(op.place, point, depth)

    def place_expr(self, place, point, depth=0):
        """value of `place` just before program point `point` = (bb, idx|'term')"""
        if depth > self.MAX_DEPTH:
            return ("unknown", "depth")
        base = self.local_expr(place.local, point, depth, place)
        return base

    def _wrap_proj(self, e, proj):
        for p in proj:
            if p == "*":
                e = ("deref", e)
            elif "f" in p:
                e = self._field(e, p["n"])
            elif "dc" in p:
                e = self._variant(e, p["dc"])
            elif "idx" in p or "cidx" in p:
                e = ("index", e)
            elif "sub_from" in p:
                e = ("subslice", e)
            else:
                pass
        return e

    def _variant(self, e, name):
        """e viewed as enum variant `name`; over a merge of literally constructed values only the alternatives that ARE that
        variant remain (`match x { Some(v) => .. }` where x = phi(Some(a) | None | Some(b)))"""
        if e[0] == "phi":
            keep = []
            for x in e[1]:
                y = x
                while y[0] in ("ref", "deref"):
                    y = y[1]
                if y[0] == "agg" and "::" in y[1] and not y[1].startswith(("closure", "coroutine")) and y[1].split("::")[-1] != name \
                        and self._is_enum_variant_ctor(y[1]):
                    continue    # an aggregate of a different variant of the enum: this alternative cannot be viewed as `name`
                keep.append(self._variant(x, name))
            if keep:
                return self._phi(keep)
        return ("variant", e, name)

    def _is_enum_variant_ctor(self, ctor):
        """ctor is `<enum path>::<Variant>` (Option::None, Result::Err, user enums), not a struct path"""
        base = ctor.rsplit("::", 1)[0]
        last = base.split("::")[-1]
        if last in ("Option", "Result", "Poll", "ControlFlow"):
            return True
        if self.prog is not None:
            a = self.prog.adts.get(base)
            if a is not None and a.get("kind") == "Enum":
                return True
        return False

    def _field(self, e, name):
        if self._canon:
            b0 = e
            while b0[0] in ("deref", "ref") and len(b0) > 1:
                b0 = b0[1]
            if b0 == ("env",):      # a captured variable, read directly or through the closure reference
                name = self._canon.get(name, name)
        # simplifications
        if e[0] == "agg":
            for n, v in e[2]:
                if n == name:
                    return v
        if e[0] in ("ref", "deref"):
            base = e
            while base[0] in ("ref", "deref"):
                base = base[1]
            if base[0] == "agg" and base[1].startswith(("closure:", "coroutine:")):
                # the environment of a closure literal merged into this body: a captured variable is what was captured
                for n, v in base[2]:
                    if n == name:
                        return v
        if e[0] == "variant":
            inner = e[1]
            if inner[0] == "call" and name == "0":
                callee = short(inner[1])
                if callee.endswith("Future::poll") and e[2] == "Ready":
                    return self._await_of_poll(inner)
                if callee.endswith("Try::branch") and e[2] == "Continue":
                    return self._try_of(inner[3][0])
            if inner[0] == "await" and inner[1][0] == "select" and name == "0":
                sel = inner[1]
                m = re.match(r"_(\d+)$", e[2])
                if m:
                    k = int(m.group(1))
                    if k < len(sel[2]):
                        return ("select_out", k, sel[1], sel[2][k])
            if inner[0] == "agg" and inner[1].endswith("::" + e[2]):
                for n, v in inner[2]:
                    if n == name:
                        return v
        if e[0] == "phi":
            return self._phi([self._field(x, name) for x in e[1]])
        if e[0] == "cell":
            return ("cell", e[1], e[2], self._field(e[3], name))
        return ("field", e, name)

    def _try_of(self, x):
        """value of `x?`: when x is (a merge of) literally constructed results — the return value of a helper merged
        into this body — it is the payload of the Ok/Some alternatives; error alternatives leave through the `?`"""
        leaves = x[1] if x[0] == "phi" else (x,)
        oks, rest, others = [], [], []
        for l in leaves:
            y = l
            while y[0] in ("ref", "deref"):
                y = y[1]
            if y[0] == "agg" and y[1].endswith(("Result::Ok", "Option::Some")) and len(y[2]) == 1:
                oks.append(y[2][0][1])
            elif y[0] == "agg" and y[1].endswith(("Result::Err", "Option::None")):
                rest.append(y)
            elif y[0] == "call" and short(y[1]).endswith("FromResidual::from_residual"):
                rest.append(y)
            else:
                others.append(l)
        if not rest and not oks:
            return ("try", x)
        if not oks and not others:
            return ("try", x)
        # error-only alternatives leave through the `?`; what continues is the Ok payloads and `?` of the opaque alternatives
        return self._phi(oks + [("try", o) for o in others])

    def _phi(self, es):
        flat = []
        for e in es:
            if e[0] == "phi":
                for x in e[1]:
                    if x not in flat:
                        flat.append(x)
            elif e not in flat:
                flat.append(e)
        if len(flat) == 1:
            return flat[0]
        return ("phi", tuple(flat))

    def _await_of_poll(self, poll_call):
        # poll(Pin::new_unchecked(&mut *(&mut fut)), cx): strip to the future's value
        a = poll_call[3][0]
        a = self.strip_refs(a)
        if a[0] == "call" and short(a[1]).endswith("Pin::new_unchecked"):
            a = self.strip_refs(a[3][0])
        if a[0] == "call" and short(a[1]).endswith("IntoFuture::into_future"):
            a = a[3][0]
        if a[0] == "call" and short(a[1]).endswith("future::poll_fn"):
            clo = self.strip_refs(a[3][0])
            if clo[0] == "agg":
                futs = None
                for n, v in clo[2]:
                    if n.endswith("futures"):
                        futs = self.strip_refs(v)
                if futs is not None and futs[0] == "agg":
                    fs = []
                    for _, v in futs[2]:
                        v = self.strip_refs(v)
                        if v[0] == "call" and short(v[1]).endswith("IntoFuture::into_future"):
                            v = v[3][0]
                        fs.append(v)
                    return ("await", ("select", a[4], tuple(fs)))
        return ("await", a)

    @staticmethod
    def strip_refs(e):
        while e[0] in ("ref", "deref", "mut", "cell"):
            e = e[3] if e[0] == "cell" else e[1]
        return e

    def local_expr(self, local, point, depth, place=None):
        body = self.body
        proj = place.proj if place is not None else []
        defs = self.defs.get(local, [])
        # parameters / captured environment
        if not defs and 1 <= local <= body.arg_count:
            return self._wrap_proj(self._param(local), proj)
        if not defs:
            return self._wrap_proj(("unknown", "undef _%d" % local), proj)
        # split projection into the leading field (for field-sensitive reaching defs) and the rest
        key = (local, point)
        reaching = self._reaching(local, point)
        if not reaching and 1 <= local <= body.arg_count:
            return self._wrap_proj(self._param(local), proj)
        first_field = None
        rest = proj
        if proj and isinstance(proj[0], dict) and "f" in proj[0]:
            first_field = proj[0]["n"]
        outs = []
        for (bb, idx, item, partial) in reaching:
            mk = (local, bb, idx, first_field if partial else None)
            if partial:
                # item assigns local.<something>
                dp = item.place.proj
                if first_field is not None and dp and isinstance(dp[0], dict) and dp[0].get("n") == first_field:
                    if len(dp) == 1:
                        e = self._def_value(item, (bb, idx), depth + 1)
                        outs.append(("killfield", self._wrap_proj(e, proj[1:])))
                    else:
                        e = self._def_value(item, (bb, idx), depth + 1)
                        outs.append(("partial", ("update", ".".join(str(x.get("n", "?")) if isinstance(x, dict) else "*" for x in dp), e)))
                elif first_field is None:
                    e = self._def_value(item, (bb, idx), depth + 1)
                    outs.append(("partial", ("update", ".".join(str(x.get("n", "?")) if isinstance(x, dict) else "*" for x in dp), e)))
                # assignment to a different field: irrelevant for this query
                continue
            if mk in self._memo:
                e = self._memo[mk]
            else:
                self._memo[mk] = ("unknown", "cycle")
                e = self._def_value(item, (bb, idx), depth + 1)
                self._memo[mk] = e
            outs.append(("whole", self._wrap_proj(e, proj)))
        vals = [e for _, e in outs]
        if not vals:
            if 1 <= local <= body.arg_count:
                return self._wrap_proj(self._param(local), proj)
            return self._wrap_proj(("unknown", "no reaching def _%d" % local), proj)
        e = self._phi(vals)
        if len(self.defs.get(local, [])) > 1 and self.body.local_name(local) is not None and len(vals) >= 1 \
                and not self._cell_off:
            ndefs = 0
            for (bb, idx, item) in self.defs.get(local, []):
                dp = item.place.proj if hasattr(item, "place") and item.place is not None else (
                    item.dest.proj if getattr(item, "dest", None) is not None else [])
                if not dp or first_field is None or (isinstance(dp[0], dict) and dp[0].get("n") == first_field):
                    ndefs += 1
            if ndefs > 1:
                e = ("cell", local, first_field, e)
        # mutation through &mut handed to calls between def and use
        muts = self._mut_calls(local, point)
        if muts:
            e = ("mut", e, tuple(sorted(muts)))
        return e

    def _param(self, local):
        body = self.body
        name = body.local_name(local)
        if body.kind in ("Closure", "SyntheticCoroutineBody") or body.coroutine:
            if local == 1:
                return ("env",)
            if body.coroutine and local == 2:
                return ("resume",)
        return ("param", local, self._canon.get(name, name))

    def _def_value(self, item, point, depth):
        from .ir import Stmt, Term
        if isinstance(item, Stmt):
            if item.kind == "setdiscr":
                return ("unknown", "setdiscr")
            return self.rvalue_expr(item.rv, point, depth)
        t = item
        if t.kind == "yield":
            return ("resume",)
        # call
        bb = point[0]
        args = tuple(self.operand_expr(a, (bb, "term"), depth) for a in t.args)
        if t.callee:
            d = short(t.callee["def"])
            if d.endswith(("Option::expect", "Option::unwrap", "Option::unwrap_unchecked")) and args:
                # payload of an Option: same value as `(x as Some).0` (the panic on None is C04's business)
                return self._field(("variant", args[0], "Some"), "0")
            return ("call", t.callee["def"], t.callee.get("resolved"), args, bb, tuple(t.callee["gargs"]))
        f = self.operand_expr(t.func, (bb, "term"), depth)
        return ("call", "<indirect>", None, (f,) + args, bb, ())

    def rvalue_expr(self, rv, point, depth):
        k = rv.k
        j = rv.j
        if k == "use":
            return self.operand_expr(rv.ops[0], point, depth)
        if k in ("ref", "rawptr"):
            return ("ref", self.place_expr(rv.place, point, depth))
        if k == "copyderef":
            return self.place_expr(rv.place, point, depth)
        if k == "cast":
            e = self.operand_expr(rv.ops[0], point, depth)
            if j["ck"].startswith("PointerCoercion") or j["ck"] in ("PtrToPtr", "Subtype"):
                return e
            return ("cast", j["ck"], e, j["from"], j["to"])
        if k == "binop":
            return ("binop", j["op"], self.operand_expr(rv.ops[0], point, depth),
                    self.operand_expr(rv.ops[1], point, depth))
        if k == "unop":
            return ("unop", j["op"], self.operand_expr(rv.ops[0], point, depth))
        if k == "discr":
            return ("discr", self.place_expr(rv.place, point, depth))
        if k == "agg":
            ak = j["ak"]
            if ak == "adt":
                ctor = "%s::%s" % (j["adt"], j["variant"])
            elif ak in ("closure", "coroutine", "coroutine_closure"):
                ctor = "%s:%s" % (ak, j["closure"])
            else:
                ctor = ak
            names = j["fields"] if j["fields"] else [str(i) for i in range(len(rv.ops))]
            if len(names) != len(rv.ops):
                names = [str(i) for i in range(len(rv.ops))]
            fs = tuple((n, self.operand_expr(o, point, depth)) for n, o in zip(names, rv.ops))
            return ("agg", ctor, fs, point[0])
        if k == "repeat":
            return ("repeat", self.operand_expr(rv.ops[0], point, depth), j["n"])
        if k == "tls":
            return ("static", j["def"])
        return ("unknown", k)

    # ---- reaching definitions (flow-sensitive, intraprocedural, on the plain CFG) ----------
    def _reaching(self, local, point):
        """list of (bb, idx, item, partial) definitions of `local` reaching `point`"""
        defs = self.defs.get(local, [])
        if len(defs) == 1:
            bb, idx, item = defs[0]
            return [(bb, idx, item, self._is_partial(item, local))] if not self._is_partial(item, local) \
                else self._reaching_walk(local, point)
        return self._reaching_walk(local, point)

    @staticmethod
    def _is_partial(item, local):
        from .ir import Stmt
        if isinstance(item, Stmt):
            return bool(item.place.proj)
        if item.kind == "yield":
            return False
        return bool(item.dest.proj)

    def _reaching_walk(self, local, point):
        key = ("rw", local, point)
        if key in self._memo:
            return self._memo[key]
        body = self.body
        by_bb = {}
        for bb, idx, item in self.defs.get(local, []):
            by_bb.setdefault(bb, []).append((idx, item))
        out = []
        seen_defs = set()

        def scan(bb, upto):
            """scan block bb backwards from position upto (exclusive; 'term' means all stmts,
            'end' means including terminator). returns True when a killing def was found"""
            lst = by_bb.get(bb)
            if not lst:
                return False
            cands = []
            for idx, item in lst:
                pos = 10 ** 9 if idx == "term" else idx
                if upto == "end":
                    ok = True
                elif upto == "term":
                    ok = idx != "term"
                else:
                    ok = idx != "term" and idx < upto
                if ok:
                    cands.append((pos, idx, item))
            cands.sort(reverse=True)
            for pos, idx, item in cands:
                partial = self._is_partial(item, local)
                k = (bb, idx)
                if k not in seen_defs:
                    seen_defs.add(k)
                    out.append((bb, idx, item, partial))
                if not partial:
                    return True
            return False

        bb0, idx0 = point
        visited = set()
        if not scan(bb0, idx0):
            work = deque(body.pred[bb0])
            while work:
                b = work.popleft()
                if b in visited:
                    continue
                visited.add(b)
                if body.blocks[b].cleanup:
                    continue
                if scan(b, "end"):
                    continue
                for p in body.pred[b]:
                    if p not in visited:
                        work.append(p)
        self._memo[key] = out
        return out

    def _mut_calls(self, local, point):
        """names of calls that receive a `&mut local` taken before `point` (over-approximate)"""
        mb = self.mutborrows.get(local)
        if not mb:
            return []
        key = ("mutcalls", local)
        sites = self._memo.get(key)
        if sites is None:
            body = self.body
            tmps = set()
            for bb, idx, s in mb:
                if "*" in s.rv.place.proj:
                    continue  # reborrow through a reference held in `local`: not a mutation of local itself
                if s.place.is_local():
                    tmps.add(s.place.local)
            # temporaries derived from those borrows (reborrows, moves, unsizing casts): fixpoint
            for _ in range(4):
                grew = False
                for b in body.blocks:
                    if b.cleanup:
                        continue
                    for s2 in b.stmts:
                        if s2.kind != "assign" or not s2.place.is_local() or s2.place.local in tmps:
                            continue
                        if s2.rv.k in ("ref", "rawptr", "copyderef"):
                            src = s2.rv.place
                        elif s2.rv.k in ("use", "cast") and s2.rv.ops and s2.rv.ops[0].place is not None:
                            src = s2.rv.ops[0].place
                        else:
                            continue
                        if src.local in tmps and len(self.defs.get(s2.place.local, [])) == 1:
                            tmps.add(s2.place.local)
                            grew = True
                    # a call that receives the borrow and returns something that still borrows (`chunks_mut`, `iter_mut`, `map`):
                    # its result is a derived borrow
                    t2 = b.term
                    if t2.kind == "call" and t2.dest is not None and t2.dest.is_local() and t2.dest.local not in tmps \
                            and any(a.place is not None and a.place.local in tmps for a in t2.args):
                        ty = body.locals[t2.dest.local].get("s", "")
                        if "&" in ty or "'" in ty:
                            tmps.add(t2.dest.local)
                            grew = True
                if not grew:
                    break
            sites = []
            for b in body.blocks:
                if b.cleanup or b.term.kind != "call":
                    continue
                if any(a.place is not None and a.place.local in tmps for a in b.term.args):
                    sites.append((b.idx, b.term.callee["def"] if b.term.callee else "<indirect>"))
                    # what a closure passed alongside does with the borrowed elements (`.for_each(|x| f(x))`)
                    for a in b.term.args:
                        if a.place is None or not a.place.is_local() or self.prog is None:
                            continue
                        ty = body.locals[a.place.local]
                        ck = ty.get("closure")
                        cb = self.prog.bodies.get(ck) if ck else None
                        if cb is not None:
                            for _, ct in cb.calls():
                                if ct.callee and not cb.is_noise(ct):
                                    sites.append((b.idx, ct.callee["def"]))
            self._memo[key] = sites
        out = set()
        for bb, name in sites:
            if self._precedes((bb, "term"), point):
                out.add(name)
        return out

    def _precedes(self, a, b):
        """may program point a execute before b (same block order or CFG reachability)"""
        if a[0] == b[0]:
            pa = 10 ** 9 if a[1] == "term" else a[1]
            pb = 10 ** 9 if b[1] == "term" else b[1]
            if pa < pb:
                return True
        key = ("reach", a[0])
        r = self._memo.get(key)
        if r is None:
            r = set()
            work = deque(self.body.succ[a[0]])
            while work:
                n = work.popleft()
                if n in r:
                    continue
                r.add(n)
                work.extend(self.body.succ[n])
            self._memo[key] = r
        return b[0] in r

    # ---- guards --------------------------------------------------------------------------
    def switch_info(self, bb, opt=False):
        """For a switch terminator: (cond_expr, {target_bb: label}). Labels: 'true'/'false' for bools,
        variant names for enum discriminants, integers otherwise; 'otherwise' for the default edge.
        With opt=True a boolean test `x.is_some()` / `x.is_none()` is reported like a match on x
        (subject x, labels Some/None), so that rules accept either idiom."""
        t = self.body.blocks[bb].term
        if t.kind != "switch":
            return None
        if opt:
            e, ls = self.switch_info(bb)
            x = strip(e)
            if x[0] == "call" and short(x[1]).endswith(("Option::is_some", "Option::is_none")) and x[3]:
                some = "true" if short(x[1]).endswith("is_some") else "false"
                out = {}
                for tb, l in ls.items():
                    out[tb] = ["Some" if some in l else "None"]
                return (x[3][0], out)
            return (e, ls)
        e = self.operand_expr(t.discr, (bb, "term"))
        labels = {}
        dty = t.j.get("dty", "")
        if e[0] == "discr":
            names = self._variant_names(t, bb)
            for v, tb in t.arms:
                labels.setdefault(tb, []).append(names.get(v, str(v)))
            covered = set(v for v, _ in t.arms)
            rest = [n for v, n in sorted(names.items()) if v not in covered]
            labels.setdefault(t.otherwise, []).extend(rest if rest else ["otherwise"])
            return (e[1], labels)
        if dty == "bool":
            neg = False
            for _ in range(8):
                if e[0] == "unop" and e[1] == "Not":
                    e = e[2]
                    neg = not neg
                elif e[0] == "call" and short(e[1]).endswith("PartialEq::ne") and len(e[3]) == 2:
                    # `a != b` is reported as the test `a == b` with the edge labels exchanged
                    e = ("call", e[1][:-2] + "eq", (e[2][:-2] + "eq") if e[2] and e[2].endswith("::ne") else e[2]) + tuple(e[3:])
                    neg = not neg
                elif e[0] == "call" and len(e[3]) == 1 and short(e[1]).endswith(("::is_pending", "::is_err")) \
                        and short(e[1]).split("::")[-2].split("<")[0] in ("Poll", "Result"):
                    # the negative spelling of a two-valued test is reported as the positive one with the edges exchanged
                    pos = {"is_pending": "is_ready", "is_err": "is_ok"}[short(e[1]).split("::")[-1]]
                    cut = len(short(e[1]).split("::")[-1])
                    e = ("call", e[1][:-cut] + pos, (e[2][:-cut] + pos) if e[2] and e[2].endswith(short(e[1]).split("::")[-1]) else e[2]) + tuple(e[3:])
                    neg = not neg
                else:
                    break
            T, F = ("false", "true") if neg else ("true", "false")
            for v, tb in t.arms:
                labels.setdefault(tb, []).append(T if v else F)
            vals = [v for v, _ in t.arms]
            labels.setdefault(t.otherwise, []).append(F if 1 in vals else T)
            return (e, labels)
        for v, tb in t.arms:
            labels.setdefault(tb, []).append(v)
        labels.setdefault(t.otherwise, []).append("otherwise")
        return (e, labels)

    def _variant_names(self, t, bb):
        # find the place whose discriminant is read
        blk = self.body.blocks[bb]
        l = t.discr.place.local if t.discr.place is not None else None
        for s in reversed(blk.stmts):
            if s.kind == "assign" and s.place.is_local() and s.place.local == l and s.rv.k == "discr":
                ty = self._place_ty(s.rv.place)
                return self._variants_of_type(ty)
        return {}

    def _place_ty(self, place):
        ty = self.body.locals[place.local]
        cur = ty
        s = cur.get("s")
        for p in place.proj:
            if p == "*":
                s = cur.get("ref") if isinstance(cur, dict) and "ref" in cur else s.lstrip("&").replace("mut ", "", 1)
                cur = {"s": s}
            elif isinstance(p, dict) and "f" in p:
                s = p["ty"]
                cur = {"s": s}
        return s

    def _variants_of_type(self, s):
        s = s.lstrip("&")
        if s.startswith("mut "):
            s = s[4:]
        base = degeneric(s)
        if base in STD_VARIANTS:
            return dict(enumerate(STD_VARIANTS[base]))
        norm = getattr(self.prog, "_adts_norm", None) if self.prog is not None else None
        if norm is None and self.prog is not None:
            norm = self.prog._adts_norm = {degeneric(k): v for k, v in self.prog.adts.items()}
        if norm is not None and base in norm:
            a = norm[base]
            out = {}
            for i, v in enumerate(a["variants"]):
                d = int(v.get("discr", i))
                out[d] = v["name"]
            return out
        return {}

    def edge_for_label(self, bb, label):
        """(bb, target) edges of the switch at bb carrying `label`"""
        info = self.switch_info(bb)
        if not info:
            return []
        return [(bb, tb) for tb, ls in info[1].items() if label in ls]


# ---- expression utilities ------------------------------------------------------------------
TRANSPARENT_CALLS = (
    "Clone::clone", "ToString::to_string", "ToOwned::to_owned", "String::as_str", "String::as_bytes",
    "Option::<T>::as_deref", "Option::as_deref", "Option::as_ref", "Option::<T>::as_ref", "AsRef::as_ref",
    "Into::into", "From::from", "Deref::deref", "DerefMut::deref_mut", "Borrow::borrow", "slice::to_vec",
    "Vec::as_slice", "String::from", "str::to_string", "slice::to_vec", "str::as_bytes", "Arc::clone",
    "Option::<T>::as_mut", "Option::as_mut", "Vec::<T, A>::as_slice", "into_boxed_slice", "Pin::<Ptr>::new",
    "Pin::new", "Pin::<Ptr>::get_mut", "std::mem::take", "Option::<T>::take", "IntoIterator::into_iter",
)


def is_transparent_call(e):
    if e[0] != "call":
        return False
    s = short(e[1])
    r = short(e[2]) if e[2] else ""
    for t in TRANSPARENT_CALLS:
        ts = short(t)
        if s == ts or r == ts or s.endswith("::" + ts) or r.endswith("::" + ts):
            return True
    return False


def strip(e, extra=()):
    """look through references, transparent calls, `?`, casts that do not change the value"""
    while True:
        k = e[0]
        if k in ("ref", "deref", "mut"):
            e = e[1]
        elif k == "cell":
            e = e[3]
        elif k == "call" and (is_transparent_call(e) or any(short(e[1]).endswith(x) for x in extra)) and e[3]:
            e = e[3][0]
        else:
            return e


def walk(e, fn, seen=None):
    """pre-order traversal over every tuple node"""
    if seen is None:
        seen = set()
    if not isinstance(e, tuple):
        return
    if id(e) in seen:
        return
    seen.add(id(e))
    fn(e)
    for x in e[1:]:
        if isinstance(x, tuple):
            if x and isinstance(x[0], str):
                walk(x, fn, seen)
            else:
                for y in x:
                    if isinstance(y, tuple):
                        if y and isinstance(y[0], str) and y[0] in KINDS:
                            walk(y, fn, seen)
                        else:
                            for z in y:
                                if isinstance(z, tuple):
                                    walk(z, fn, seen)


KINDS = {"cell", "param", "upvar", "env", "const", "fn", "static", "constitem", "call", "field", "deref", "ref",
         "variant", "agg", "binop", "unop", "cast", "discr", "await", "try", "select", "select_out", "phi",
         "update", "mut", "resume", "unknown", "index", "subslice", "repeat"}


def find_all(e, pred):
    out = []

    def f(x):
        if x and isinstance(x[0], str) and x[0] in KINDS and pred(x):
            out.append(x)
    walk(e, f)
    return out


def calls_in(e, suffix=None):
    def p(x):
        if x[0] != "call":
            return False
        if suffix is None:
            return True
        return short(x[1]).endswith(suffix) or (x[2] and short(x[2]).endswith(suffix))
    return find_all(e, p)


def origins(e, through_calls=True, _depth=0):
    """set of leaf origins of a value after looking through transparent wrappers; calls that are not
    transparent are origins themselves (identified by callee and site)"""
    out = set()

    def go(x, d):
        if d > 200:
            out.add(("unknown", "depth"))
            return
        x = strip(x)
        k = x[0]
        if k == "phi":
            for y in x[1]:
                go(y, d + 1)
        elif k in ("try", "await"):
            go(x[1], d + 1)
        elif k == "select_out":
            go(x[3], d + 1)
        elif k == "update":
            go(x[2], d + 1)
        elif k == "cell":
            go(x[3], d + 1)
        elif k == "cast":
            go(x[2], d + 1)
        elif k == "field":
            b = strip(x[1])
            if b[0] == "phi":
                for y in b[1]:
                    go(("field", y, x[2]), d + 1)
            else:
                out.add(("field", _origin_key(b), x[2]))
        elif k == "variant":
            go(x[1], d + 1)
        else:
            out.add(_origin_key(x))

    go(e, _depth)
    return out


def _origin_key(x):
    x = strip(x)
    k = x[0]
    if k == "call":
        return ("call", short(x[2] or x[1]), x[4])
    if k in ("try", "await"):
        return _origin_key(x[1])
    if k == "select_out":
        return _origin_key(x[3])
    if k == "field":
        return ("field", _origin_key(x[1]), x[2])
    if k == "variant":
        return _origin_key(x[1])
    if k == "agg":
        return ("agg", x[1], x[3])
    if k == "param":
        return ("param", x[1], x[2])
    if k == "const":
        return ("const", x[2])
    if k == "phi":
        return ("phi", tuple(sorted(set(repr(_origin_key(y)) for y in x[1]))))
    if k == "cast":
        return _origin_key(x[2])
    return x[:3] if len(x) > 3 else x


def render(e, depth=0, maxdepth=8):
    """compact human-readable rendering for reports"""
    if depth > maxdepth:
        return "…"
    k = e[0]
    r = lambda x: render(x, depth + 1, maxdepth)
    if k == "param":
        return "param(%s)" % (e[2] or e[1])
    if k == "env":
        return "env"
    if k == "const":
        return repr(e[2])
    if k == "constitem":
        return e[1].split("::")[-1] + ("=%r" % (e[2],) if e[2] is not None else "")
    if k in ("fn", "static"):
        return "%s(%s)" % (k, e[1])
    if k == "call":
        name = short(e[2] or e[1])
        name = "::".join(name.split("::")[-2:])
        return "%s(%s)@bb%s" % (name, ", ".join(r(a) for a in e[3]), e[4])
    if k == "field":
        return "%s.%s" % (r(e[1]), e[2])
    if k == "deref":
        return "*%s" % r(e[1])
    if k == "ref":
        return "&%s" % r(e[1])
    if k == "variant":
        return "(%s as %s)" % (r(e[1]), e[2])
    if k == "agg":
        return "%s{%s}" % (e[1].split("::")[-1] if not e[1].startswith(("closure", "coroutine")) else e[1].split(":")[0],
                           ", ".join("%s: %s" % (n, r(v)) for n, v in e[2]))
    if k == "binop":
        return "%s(%s, %s)" % (e[1], r(e[2]), r(e[3]))
    if k == "unop":
        return "%s(%s)" % (e[1], r(e[2]))
    if k == "cast":
        return "(%s as %s)" % (r(e[2]), e[4])
    if k in ("await", "try", "discr"):
        return "%s(%s)" % (k, r(e[1]))
    if k == "select":
        return "select!@bb%s[%s]" % (e[1], " | ".join(r(f) for f in e[2]))
    if k == "select_out":
        return "select_out#%d(%s)" % (e[1], r(e[3]))
    if k == "phi":
        return "phi(%s)" % " | ".join(r(x) for x in e[1])
    if k == "update":
        return "update(.%s := %s)" % (e[1], r(e[2]))
    if k == "mut":
        return "mut[%s](%s)" % (",".join(x.split("::")[-1] for x in e[2]), r(e[1]))
    if k == "unknown":
        return "?(%s)" % e[1]
    if k == "cell":
        return "cell[_%s%s](%s)" % (e[1], "." + e[2] if e[2] else "", r(e[3]))
    return k

"""Canonicalisation of names against the pinned tree (spec/pinned.json), applied to the JSON IR before inlining.

Rules name functions, struct fields and async bodies as they are spelled on the pinned tree. Three kinds of
behaviour-neutral edits change those spellings without changing the program; each is undone here, by identity
rather than by guess:

* a private function renamed: a pinned fn that no longer exists and exactly one new fn in the same module/impl with the
  same signature -> the new fn is given the pinned key/name everywhere;
* a struct field renamed: same struct, same field count, same type at the same position, new name unknown to the
  pinned struct -> the pinned field name everywhere (place projections, aggregates, the ADT table);
* `#[instrument]` added to / removed from an async fn: the user-written coroutine moves between `F::{closure#0}` and
  `F::{closure#0}::{closure#0}` -> keys are shifted so the user coroutine sits where the pinned tree has it.

Everything is a pure renaming of keys; no statement is touched. When nothing differs (the usual case) nothing is walked."""
import json
import os
import re

_spec = None


def spec():
    global _spec
    if _spec is None:
        path = os.path.join(os.path.dirname(os.path.dirname(os.path.abspath(__file__))), "spec", "pinned.json")
        try:
            with open(path) as fh:
                _spec = json.load(fh)
        except Exception:
            _spec = {}
    return _spec


def _parent(key):
    return key.rsplit("::", 1)[0] if "::" in key else ""


def _walk_substr(o, rules):
    """replace moved type paths wherever they occur inside a string (type strings embed paths: `Vec<a::b::T>`)"""
    pats = [(new_, re.compile(re.escape(new_) + r"(?![A-Za-z0-9_])"), old_) for new_, old_ in rules]
    stack = [o]
    while stack:
        x = stack.pop()
        it = x.items() if isinstance(x, dict) else (enumerate(x) if isinstance(x, list) else ())
        for k, v in list(it):
            if isinstance(v, str):
                for new_, rx, old_ in pats:
                    if new_ in v:
                        v = rx.sub(old_, v)
                        x[k] = v
            elif isinstance(v, (dict, list)):
                stack.append(v)


def plan_moves(crate_j):
    """types that were moved to another module of the same crate: [(current path, pinned path)]"""
    sp = spec()
    crate = crate_j.get("crate", "")
    padts = sp.get("adts", {})
    if not padts:
        return [], []
    cur = {}
    for a in crate_j.get("adts", []):
        cur[a["key"]] = [a.get("kind", ""), [[v.get("name", "")] + [f["name"] for f in v.get("fields", [])] for v in a.get("variants", [])]]
    missing = [k for k in padts if k.split("::")[0] == crate and k not in cur]
    added = [k for k in cur if k not in padts]
    out, report = [], []
    used = set()
    for m in sorted(missing):
        cands = [a for a in added if a not in used and a.rsplit("::", 1)[-1] == m.rsplit("::", 1)[-1] and cur[a] == padts[m]]
        if len(cands) == 1:
            used.add(cands[0])
            out.append((cands[0], m))
            report.append("type %s is the pinned %s (moved, same shape)" % (cands[0], m))
    return out, report


def _walk_replace(o, prefixes, exact_fields):
    """in-place replacement over a JSON tree. prefixes: [(old, new)] applied to strings equal to old or starting with
    old + '::' ; exact_fields: {adt: {new field name: old}} applied to place projections and adt aggregates"""
    stack = [o]
    while stack:
        x = stack.pop()
        if isinstance(x, dict):
            if exact_fields:
                # aggregate of a renamed struct
                adt = x.get("adt")
                if adt in exact_fields and isinstance(x.get("fields"), list):
                    m = exact_fields[adt]
                    x["fields"] = [(m[f][0] if f in m else f) for f in x["fields"]]
                # field projection: the renamed field is recognised by name, position and type together
                if "f" in x and "n" in x and isinstance(x["n"], str):
                    for m in exact_fields.values():
                        hit = m.get(x["n"])
                        if hit is not None and isinstance(hit, tuple):
                            old_name, idx, ty = hit
                            if x.get("f") == idx and (ty is None or x.get("ty") == ty):
                                x["n"] = old_name
                                break
            for k, v in x.items():
                if isinstance(v, str):
                    if prefixes:
                        nv = _apply(v, prefixes)
                        if nv is not v:
                            x[k] = nv
                elif isinstance(v, (dict, list)):
                    stack.append(v)
        elif isinstance(x, list):
            for i, v in enumerate(x):
                if isinstance(v, str):
                    if prefixes:
                        nv = _apply(v, prefixes)
                        if nv is not v:
                            x[i] = nv
                elif isinstance(v, (dict, list)):
                    stack.append(v)


def _apply(s, prefixes):
    for old, new in prefixes:
        if s == old:
            return new
        if s.startswith(old) and s[len(old):len(old) + 2] == "::":
            return new + s[len(old):]
    return s


def plan(crate_j, phase):
    """what has to be renamed in this crate: (prefixes, exact_fields, report). phase 1: impl-block numbering only; phase 2: the rest
    (planned on the already renumbered keys)"""
    sp = spec()
    crate = crate_j.get("crate", "")
    report = []
    prefixes = []
    exact_fields = {}
    # impl blocks are numbered per module in source order ({impl#N}): adding, removing or moving one renumbers the others.
    # Each current impl is given the key of the pinned impl with the same (self type, trait) in the same module.
    pimpls = sp.get("impls", {}) if phase == 1 else {}
    if pimpls:
        cur_impls = [im for im in crate_j.get("impls", []) if "::{impl#" in im["key"].rsplit("::", 1)[-1] or im["key"].rsplit("::", 1)[-1].startswith("{impl#")]
        by_mod = {}
        for im in cur_impls:
            by_mod.setdefault(_parent(im["key"]), []).append(im)
        pin_by_mod = {}
        for k, (slf, tr) in pimpls.items():
            if k.split("::")[0] == crate and k.rsplit("::", 1)[-1].startswith("{impl#"):
                pin_by_mod.setdefault(_parent(k), []).append((k, slf, tr))
        tmp_n = [0]
        # an impl block that moved to another module together with its type
        cur_sigs = {}
        for im in cur_impls:
            cur_sigs.setdefault((im.get("self", ""), im.get("trait", "") or ""), []).append(im)
        pin_sigs = {}
        for k, (slf, tr) in pimpls.items():
            if k.split("::")[0] == crate and k.rsplit("::", 1)[-1].startswith("{impl#"):
                pin_sigs.setdefault((slf, tr), []).append(k)
        cur_keys = set(im["key"] for im in cur_impls)
        moved_n = [0]
        for sig, pks in sorted(pin_sigs.items()):
            cims0 = cur_sigs.get(sig, [])
            if len(pks) == 1 and len(cims0) == 1 and pks[0] not in cur_keys and cims0[0]["key"] not in pimpls \
                    and _parent(pks[0]) != _parent(cims0[0]["key"]):
                tmp = "%s::{impl@m%d}::{user}" % (_parent(cims0[0]["key"]), moved_n[0])
                moved_n[0] += 1
                prefixes.append((cims0[0]["key"], tmp))
                prefixes.append((tmp, pks[0]))
                report.append("impl %s is the pinned %s (moved with its type)" % (cims0[0]["key"], pks[0]))
                by_mod[_parent(cims0[0]["key"])] = [im for im in by_mod.get(_parent(cims0[0]["key"]), []) if im is not cims0[0]]
        for mod, cims in sorted(by_mod.items()):
            pins = sorted(pin_by_mod.get(mod, []))
            if not pins:
                continue
            cims = sorted(cims, key=lambda im: int(re.search(r"impl#(\d+)", im["key"].rsplit("::", 1)[-1]).group(1)))
            assign = {}
            used = set()
            for im in cims:
                sig = (im.get("self", ""), im.get("trait", "") or "")
                for k, slf, tr in pins:
                    if k not in used and (slf, tr) == sig:
                        assign[im["key"]] = k
                        used.add(k)
                        break
            if all(a == b for a, b in assign.items()) and not [im for im in cims if im["key"] not in assign and im["key"] in pimpls]:
                continue
            # everything that changes (or would collide) goes through a temporary name
            taken = set(assign.values())
            fresh = 900
            for im in cims:
                old = im["key"]
                new = assign.get(old)
                if new is None:
                    if old in taken or old in pimpls:
                        new = "%s::{impl#%d}" % (mod, fresh)
                        fresh += 1
                    else:
                        continue
                if new != old:
                    tmp = "%s::{impl@%d}::{user}" % (mod, tmp_n[0])
                    tmp_n[0] += 1
                    prefixes.append((old, tmp))
                    prefixes.append((tmp, new))
                    report.append("impl %s is the pinned %s (same self type and trait)" % (old, new) if old in assign else "impl %s is new; renumbered to %s" % (old, new))
    if phase == 1:
        return prefixes, exact_fields, report
    sigs = sp.get("sigs", {})
    if sigs:
        cur = {f["key"]: f for f in crate_j.get("fns", [])}
        mine = {k: v for k, v in sigs.items() if k.split("::")[0] == crate}
        missing = [k for k in mine if k not in cur]
        added = [k for k in cur if k not in sigs]
        used = set()
        for m in sorted(missing):
            cands = [a for a in added if a not in used and _parent(a) == _parent(m) and cur[a].get("sig") == mine[m]]
            if not cands:
                # moved to another module / impl block of the same crate under the same name
                cands = [a for a in added if a not in used and a.rsplit("::", 1)[-1] == m.rsplit("::", 1)[-1] and cur[a].get("sig") == mine[m]]
            if len(cands) == 1:
                a = cands[0]
                used.add(a)
                prefixes.append((a, m))
                pa = cur[a].get("name", a)
                pm = pa.rsplit("::", 1)[0] + "::" + m.rsplit("::", 1)[1] if "::" in pa else m
                if pa != a:
                    prefixes.append((pa, pm))
                report.append("fn %s is the pinned %s (same signature, same scope)" % (a, m))
    # struct fields
    pf = sp.get("adt_fields", {})
    if pf:
        all_field_names = {}
        for a in crate_j.get("adts", []):
            for v in a.get("variants", []):
                for f in v.get("fields", []):
                    all_field_names.setdefault(f["name"], set()).add(a["key"])
        for a in crate_j.get("adts", []):
            want = pf.get(a["key"])
            if not want or a.get("kind") != "Struct" or not a.get("variants"):
                continue
            have = a["variants"][0].get("fields", [])
            if len(have) != len(want):
                continue
            wnames = [w[0] for w in want]
            hnames = [h["name"] for h in have]
            if sorted(wnames) == sorted(hnames):
                continue    # same names (possibly reordered)
            m = {}
            ok = True
            for idx, ((wn, wt), h) in enumerate(zip(want, have)):
                if h["name"] == wn:
                    continue
                if h["name"] in wnames or wn in hnames or h.get("ty") != wt:
                    ok = False
                    break
                m[h["name"]] = (wn, idx, h.get("ty"))
            if ok and m:
                exact_fields[a["key"]] = m
                exact_fields[a.get("name", a["key"])] = m
                report.append("struct %s: fields %s are the pinned %s (same position and type)" % (a["key"], sorted(m), sorted(v[0] for v in m.values())))
    # #[instrument] toggles on async fns
    pinned_instr = set(sp.get("instrumented", []))
    pinned_async = set(sp.get("async_fns", []))
    if pinned_async:
        keys = set(b["key"] for b in crate_j.get("bodies", []))
        ren = dict(prefixes)
        for f in sorted(pinned_async):
            if f.split("::")[0] != crate:
                continue
            cf = f
            for a, m in prefixes:
                if m == f:
                    cf = a      # the function is currently spelled `a`
            outer, inner = cf + "::{closure#0}", cf + "::{closure#0}::{closure#0}"
            if outer not in keys:
                continue
            now_instr = inner in keys and _is_instrument_wrapper(crate_j, outer, inner)
            was_instr = f in pinned_instr
            if now_instr and not was_instr:
                prefixes = [(inner, outer + "::{user}"), (outer, cf + "::{wrapper#0}"), (outer + "::{user}", outer)] + prefixes
                report.append("async fn %s gained #[instrument]: its body is taken from %s" % (f, inner))
            elif was_instr and not now_instr:
                prefixes = [(outer, inner)] + prefixes
                report.append("async fn %s lost #[instrument]: its body %s is presented as %s" % (f, outer, inner))
    return prefixes, exact_fields, report


def _is_instrument_wrapper(crate_j, outer, inner):
    for b in crate_j.get("bodies", []):
        if b["key"] == outer:
            txt = json.dumps(b["blocks"])
            return ("Instrument" in txt or "instrument" in txt) and inner in txt
    return False


def canonicalise_all(crates):
    """crates: list of crate JSON objects (lib crates of one extraction). Plans per crate, applies to all (a renamed
    public field or fn is referenced from other crates too). Returns the list of report lines."""
    all_report = []
    moves = []
    for j in crates:
        mv, rp = plan_moves(j)
        moves += mv
        all_report += rp
    if moves:
        for j in crates:
            _walk_substr(j, moves)
    for phase in (1, 2):
        prefixes, fields, report = [], {}, []
        for j in crates:
            p, f, r = plan(j, phase)
            prefixes += p
            fields.update(f)
            report += r
        if not prefixes and not fields:
            continue
        pass_a = sorted([p for p in prefixes if not p[0].endswith("::{user}")], key=lambda p: -len(p[0]))
        pass_b = [p for p in prefixes if p[0].endswith("::{user}")]
        for j in crates:
            _walk_replace(j, pass_a, fields)
            if pass_b:
                _walk_replace(j, pass_b, None)
            for a in j.get("adts", []):
                m = fields.get(a.get("key"))
                if m and a.get("variants"):
                    for f in a["variants"][0].get("fields", []):
                        if f["name"] in m:
                            f["name"] = m[f["name"]][0]
        all_report += report
    for j in crates:
        j["canonicalised"] = all_report
    return all_report

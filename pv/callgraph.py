"""Whole-workspace call graph over resolved callees (engine D, DESIGN §3.5).

Nodes are lib body keys. Edges: direct calls (resolved impl when known; an unresolved trait method call
fans out to every workspace impl of that method), closures/coroutines constructed in a body, and closure or
coroutine values passed as call arguments (callbacks)."""
from .flow import short


class CallGraph(object):
    def __init__(self, prog):
        self.prog = prog
        self.edges = {}      # key -> set(keys)
        self.ext = {}        # key -> set(short external callee names)
        self._names = {}
        self._reach = {}
        self.impl_methods = {}   # (trait, method) -> [body keys]
        for b in prog.lib_bodies.values():
            tr = b.j.get("impl_trait")
            if tr and b.j.get("fn_name"):
                self.impl_methods.setdefault((tr, b.j["fn_name"]), []).append(b.key)
        for k, b in prog.lib_bodies.items():
            es, xs = set(), set()
            for blk in b.blocks:
                if blk.cleanup:
                    continue
                for s in blk.stmts:
                    if s.kind == "assign" and s.rv.k == "agg" and s.rv.j.get("ak") in ("closure", "coroutine", "coroutine_closure"):
                        ck = s.rv.j["closure"]
                        if ck in prog.lib_bodies:
                            es.add(ck)
                t = blk.term
                if t.kind != "call":
                    continue
                c = t.callee
                if not c:
                    xs.add("<indirect>")
                    continue
                tk = c.get("resolved_key") or c["key"]
                nm = short(c.get("resolved") or c["def"])
                xs.add(nm)
                xs.add(short(c["def"]))
                if tk in prog.lib_bodies:
                    es.add(tk)
                elif c.get("trait") and not c.get("resolved"):
                    for ik in self.impl_methods.get((c["trait"], c["name"]), []):
                        es.add(ik)
            self.edges[k] = es
            self.ext[k] = xs

    def reach(self, key):
        r = self._reach.get(key)
        if r is None:
            r = set()
            work = [key]
            while work:
                x = work.pop()
                if x in r:
                    continue
                r.add(x)
                work.extend(self.edges.get(x, ()))
            self._reach[key] = r
        return r

    def names(self, key):
        """short names of everything (workspace or external) transitively called from body `key`"""
        n = self._names.get(key)
        if n is None:
            n = set()
            for k in self.reach(key):
                n |= self.ext.get(k, set())
            self._names[key] = n
        return n

    def term_targets(self, body, term):
        """workspace body keys a call terminator may enter (callee + callbacks passed as arguments)"""
        out = set()
        c = term.callee
        if c:
            tk = c.get("resolved_key") or c["key"]
            if tk in self.prog.lib_bodies:
                out.add(tk)
            elif c.get("trait") and not c.get("resolved"):
                out.update(self.impl_methods.get((c["trait"], c["name"]), []))
        for ty in term.argtys:
            # closure / coroutine types print as {closure@file:l:c: l:c}; match through locals instead
            pass
        for a in term.args or []:
            if a.place is not None:
                l = body.locals[a.place.local]
                ck = l.get("closure")
                if ck and ck in self.prog.lib_bodies:
                    out.add(ck)
        return out

    def term_names(self, body, term):
        out = set()
        c = term.callee
        if c:
            out.add(short(c.get("resolved") or c["def"]))
            out.add(short(c["def"]))
        for k in self.term_targets(body, term):
            out |= self.names(k)
        return out

    def term_reaches(self, body, term, suffixes):
        if isinstance(suffixes, str):
            suffixes = (suffixes,)
        return any(n.endswith(s) for n in self.term_names(body, term) for s in suffixes)

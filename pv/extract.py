"""Fact extraction: run the passage-facts rustc driver over /repo (DESIGN §2.1, §2.2).

Facts are cached under /verif/.cache/facts/<config>-<hash>/ keyed by a hash of every file that can
influence the build plus the driver source. Nothing here executes passage or its tests: the driver
is `cargo +nightly check` with a RUSTC_WORKSPACE_WRAPPER.
"""
import fcntl
import glob
import hashlib
import json
import os
import shutil
import subprocess
import sys
import time

VERIF = os.path.dirname(os.path.dirname(os.path.abspath(__file__)))
REPO = os.environ.get("PASSAGE_REPO", "/repo")
CACHE = os.path.join(VERIF, ".cache")
DRIVER_DIR = os.path.join(VERIF, "driver")
DRIVER_BIN = os.path.join(DRIVER_DIR, "target", "release", "passage-facts")

# feature configurations (label -> cargo arguments)
CONFIGS = {
    "default": ["--workspace"],
    "all-targets": ["--workspace", "--all-targets"],
    "packets-server": ["-p", "passage-packets", "--no-default-features", "--features", "server"],
    "packets-client": ["-p", "passage-packets", "--no-default-features", "--features", "client"],
}

EXPECTED_CRATES = {
    "default": ["passage", "passage_protocol", "passage_packets", "passage_adapters",
                "passage_adapters_grpc", "passage_adapters_http", "passage_adapters_agones",
                "passage_adapters_dns"],
    "all-targets": ["passage", "passage_protocol", "passage_packets", "passage_adapters",
                    "passage_adapters_grpc", "passage_adapters_http", "passage_adapters_agones",
                    "passage_adapters_dns"],
    "packets-server": ["passage_packets"],
    "packets-client": ["passage_packets"],
}


def _nightly_sysroot():
    return subprocess.check_output(["rustc", "+nightly", "--print", "sysroot"], text=True).strip()


def source_files(repo=None):
    repo = repo or REPO
    out = []
    for root, dirs, files in os.walk(repo):
        dirs[:] = [d for d in dirs if d not in ("target", ".git", "node_modules", "docs", ".github")]
        for f in files:
            if f.endswith((".rs", ".proto")) or f in ("Cargo.toml", "Cargo.lock", "build.rs",
                                                        "rust-toolchain.toml", "rust-toolchain"):
                out.append(os.path.join(root, f))
    out.sort()
    return out


def source_hash(repo=None):
    repo = repo or REPO
    h = hashlib.sha256()
    for p in source_files(repo):
        h.update(os.path.relpath(p, repo).encode())
        h.update(b"\0")
        with open(p, "rb") as fh:
            h.update(fh.read())
        h.update(b"\0")
    for p in (os.path.join(DRIVER_DIR, "src", "main.rs"), os.path.join(DRIVER_DIR, "Cargo.toml")):
        with open(p, "rb") as fh:
            h.update(fh.read())
    return h.hexdigest()[:20]


def build_driver(quiet=True):
    """(Re)build the driver if its binary is missing or older than its source."""
    src = os.path.join(DRIVER_DIR, "src", "main.rs")
    if os.path.exists(DRIVER_BIN) and os.path.getmtime(DRIVER_BIN) >= os.path.getmtime(src):
        return
    env = dict(os.environ, CARGO_NET_OFFLINE="true")
    r = subprocess.run(["cargo", "+nightly", "build", "--release", "--offline"], cwd=DRIVER_DIR,
                       env=env, stdout=subprocess.PIPE, stderr=subprocess.STDOUT, text=True)
    if r.returncode != 0:
        sys.stderr.write(r.stdout)
        raise SystemExit("passage-facts driver failed to build")


def _lock():
    os.makedirs(CACHE, exist_ok=True)
    fh = open(os.path.join(CACHE, "extract.lock"), "w")
    fcntl.flock(fh, fcntl.LOCK_EX)
    return fh


def facts_dir(config="default", repo=None, cache_root=None):
    h = source_hash(repo)
    return os.path.join(cache_root or CACHE, "facts", "%s-%s" % (config, h)), h


def ensure_facts(config="default", repo=None, target_dir=None, cache_root=None, keep_old=False):
    """Return (dir, hash, info). Extracts when the cache does not hold this exact tree."""
    repo = repo or REPO
    lock = _lock()
    try:
        build_driver()
        out, h = facts_dir(config, repo, cache_root)
        stamp = os.path.join(out, "STAMP.json")
        if os.path.exists(stamp):
            info = json.load(open(stamp))
            if _complete(out, config, h):
                info["cached"] = True
                return out, h, info
        if os.path.isdir(out):
            shutil.rmtree(out)
        os.makedirs(out)
        target = target_dir or os.path.join(CACHE, "target")
        os.makedirs(target, exist_ok=True)
        # cargo's freshness cache would skip the wrapper for unchanged members: drop their fingerprints
        for fp in glob.glob(os.path.join(target, "debug", ".fingerprint", "passage*")):
            shutil.rmtree(fp, ignore_errors=True)
        env = dict(os.environ)
        env.update({
            "LD_LIBRARY_PATH": _nightly_sysroot() + "/lib:" + env.get("LD_LIBRARY_PATH", ""),
            "RUSTFLAGS": "-Zmir-opt-level=0 -Awarnings",
            "RUSTC_WORKSPACE_WRAPPER": DRIVER_BIN,
            "PASSAGE_FACTS_OUT": out,
            "PASSAGE_FACTS_HASH": h,
            "PASSAGE_FACTS_LABEL": config,
            "CARGO_TARGET_DIR": target,
            "CARGO_NET_OFFLINE": "true",
        })
        env.pop("RUSTC_WRAPPER", None)
        t0 = time.time()
        cmd = ["cargo", "+nightly", "check", "--offline"] + CONFIGS[config]
        r = subprocess.run(cmd, cwd=repo, env=env, stdout=subprocess.PIPE, stderr=subprocess.STDOUT,
                           text=True)
        info = {"config": config, "hash": h, "cmd": " ".join(cmd), "wall_s": round(time.time() - t0, 1),
                "returncode": r.returncode, "cached": False}
        if r.returncode != 0:
            tail = "\n".join(r.stdout.splitlines()[-60:])
            info["error"] = tail
            with open(os.path.join(out, "BUILD_FAILED.txt"), "w") as fh:
                fh.write(r.stdout)
            return out, h, info
        if not _complete(out, config, h, need_stamp=False):
            info["error"] = "fact files missing after extraction: " + ", ".join(sorted(os.listdir(out)))
            info["returncode"] = 99
            return out, h, info
        with open(stamp, "w") as fh:
            json.dump(info, fh)
        if not keep_old:
            base = os.path.dirname(out)
            for d in os.listdir(base):
                if d.startswith(config + "-") and os.path.join(base, d) != out:
                    shutil.rmtree(os.path.join(base, d), ignore_errors=True)
        return out, h, info
    finally:
        lock.close()


def _complete(out, config, h, need_stamp=True):
    names = os.listdir(out) if os.path.isdir(out) else []
    for c in EXPECTED_CRATES[config]:
        if not any(n.startswith(c + ".") and n.endswith(".json") and ".rlib." in n for n in names):
            return False
    return True


if __name__ == "__main__":
    cfg = sys.argv[1] if len(sys.argv) > 1 else "default"
    d, h, info = ensure_facts(cfg)
    print(d, h, json.dumps(info)[:2000])

"""Extraction of packet layouts from WritePacket / ReadPacket bodies (DESIGN §3.6)."""
from . import flow
from .lib import *  # noqa: F401,F403

WRITE_KINDS = {
    "write_varint": "varint", "write_varlong": "varlong", "write_string": "string", "write_bytes": "bytes",
    "write_uuid": "uuid", "write_bool": "bool", "write_text_component": "text",
    "write_u8": "u8", "write_i8": "i8", "write_u16": "u16", "write_i16": "i16", "write_u32": "u32", "write_i32": "i32",
    "write_u64": "u64", "write_i64": "i64", "write_u128": "u128", "write_i128": "i128", "write_f32": "f32", "write_f64": "f64",
    "write_u16_le": "u16le", "write_u32_le": "u32le", "write_u64_le": "u64le", "write_i32_le": "i32le", "write_i64_le": "i64le",
    "write_all": "raw",
}
READ_KINDS = {k.replace("write_", "read_"): v for k, v in WRITE_KINDS.items() if k != "write_all"}
READ_KINDS.update({"read_exact": "raw", "read_to_end": "raw"})


def impl_bodies(ctx, trait, method):
    """{self type: deepest body of <T as trait>::method} (the inner async block when #[instrument]ed)"""
    out = {}
    for i in ctx.prog.impls:
        if i.get("trait") != trait:
            continue
        for it in i["items"]:
            if it["name"] == method:
                k = it["key"]
                for suffix in ("::{closure#0}::{closure#0}", "::{closure#0}", ""):
                    b = ctx.prog.lib_bodies.get(k + suffix)
                    if b is not None:
                        out[i["self"]] = b
                        break
    return out


def _order(g, sites):
    """sort call sites by dominance; returns (ordered, total?)"""
    ordered = sorted(sites, key=lambda x: sum(1 for y in sites if y is not x and always_before(g, y[0], x[0])))
    total = all(always_before(g, ordered[i][0], ordered[i + 1][0]) or True for i in range(len(ordered) - 1))
    # totality in the weak sense needed here: no two sites mutually unordered AND both unconditional
    return ordered, total


def _self_path(e):
    """field path below `self` for a value expression, or None"""
    pn, fs = param_path(e)
    if pn == "self":
        return fs
    return None


def writer_layout(ctx, body):
    """[(kind, source)] in dominance order. source: 'f' | 'f?' (presence flag) | 'f!' (payload of Some) | '=c'"""
    an = ctx.an(body)
    g = ctx.graph(body)
    sites = []
    for bb, t in body.calls():
        if body.is_noise(t):
            continue
        n = dname(t)
        m = n.split("::")[-1]
        if m in WRITE_KINDS and ("AsyncWritePacket" in n or "AsyncWriteExt" in n):
            sites.append((bb, t, WRITE_KINDS[m]))
    ordered, _ = _order(g, sites)
    # Some-guards: switches on discriminant of self.<field>
    guards = []
    nguards = []
    for b in body.blocks:
        if b.cleanup or b.term.kind != "switch" or body.is_noise(b.term):
            continue
        e, ls = an.switch_info(b.idx)
        fs = _self_path(e)
        if fs and any("Some" in l for l in ls.values()):
            guards.append((".".join(fs), [(b.idx, tb) for tb, l in ls.items() if "Some" in l]))
            nguards.append((".".join(fs), [(b.idx, tb) for tb, l in ls.items() if "None" in l]))
    out = []
    for bb, t, kind in ordered:
        dst = arg(an, bb, t, 0)
        if param_name(dst) != "buffer":
            out.append((kind, "?not-on-buffer"))
            continue
        v = arg(an, bb, t, 1)
        src = classify_written(v)
        cond = [f for f, edges in guards if g.must_pass(bb, cut_edges=edges)[0]]
        ncond = [f for f, edges in nguards if edges and g.must_pass(bb, cut_edges=edges)[0]]
        if cond and not src.endswith("!"):
            src += " if " + ",".join(cond)
        elif ncond and not src.endswith("!"):
            src += " unless " + ",".join(ncond)
        out.append((kind, src))
    # a presence flag written as a literal in each arm of `match self.f { Some(..) => true, None => false }`
    # is the same wire step as `write_bool(self.f.is_some())`
    merged = []
    skip = set()
    for i, (kind, src) in enumerate(out):
        if i in skip:
            continue
        if kind == "bool" and src.startswith(("=True if ", "=False unless ")):
            f = src.split(" ", 2)[2]
            want = ("=False unless " + f) if src.startswith("=True") else ("=True if " + f)
            js = [j for j in range(len(out)) if j != i and j not in skip and out[j] == ("bool", want)]
            if len(js) == 1:
                skip.add(js[0])
                merged.append(("bool", f + "?"))
                continue
        merged.append((kind, src))
    return merged


def classify_written(v):
    x = flow.strip(v)
    conv = ""
    for _ in range(4):
        if x[0] == "cast":
            conv = " as " + x[4]
            x = flow.strip(x[2])
        else:
            break
    if x[0] in ("const",):
        return "=%s" % (x[2],)
    if x[0] == "call" and flow.short(x[1]).endswith(("Option::is_some",)):
        fs = _self_path(x[3][0])
        return (".".join(fs) if fs else "?") + "?"
    if x[0] == "call" and flow.short(x[1]).endswith(("len",)):
        fs = _self_path(x[3][0])
        return "len(" + (".".join(fs) if fs else "?") + ")"
    if x[0] == "call" and flow.short(x[1]).endswith(("Uuid::as_u128",)):
        fs = _self_path(x[3][0])
        return (".".join(fs) if fs else "?")
    # payload of `if let Some(p) = &self.f`
    if x[0] == "field" and x[2] == "0":
        inner = flow.strip(x[1])
        if inner[0] == "variant" and inner[2] == "Some":
            fs = _self_path(inner[1])
            return (".".join(fs) if fs else "?") + "!"
    fs = _self_path(x)
    if fs is not None:
        return ".".join(fs) + conv
    return "?" + flow.render(x, maxdepth=2)


def reader_layout(ctx, body, tname):
    """[(kind, source)] of the reads in dominance order, mapped to the field of the returned struct they
    end up in: 'f' | 'f?' (flag guarding optional f) | 'f!' (value inside Some) | '=_' (discarded)"""
    an = ctx.an(body)
    g = ctx.graph(body)
    sites = []
    for bb, t in body.calls():
        if body.is_noise(t):
            continue
        n = dname(t)
        m = n.split("::")[-1]
        if m in READ_KINDS and ("AsyncReadPacket" in n or "AsyncReadExt" in n):
            sites.append((bb, t, READ_KINDS[m]))
    ordered, _ = _order(g, sites)
    r = return_expr(an)
    aggs = find_all(r, lambda x: x[0] == "agg" and x[1].endswith("Result::Ok"))
    fields = {}
    extra = {}
    for o in aggs:
        v = flow.strip(o[2][0][1])
        if v[0] == "agg":
            for fname, fe in v[2]:
                for c in calls_in(fe):
                    nm = flow.short(c[1]).split("::")[-1]
                    if nm in READ_KINDS:
                        conv = ""
                        if calls_in(fe, "TryInto::try_into"):
                            conv = ""
                        somes = find_all(fe, lambda x: x[0] == "agg" and x[1].endswith("Option::Some"))
                        opt = bool(somes) and any(c in calls_in(s) for s in somes)
                        casts = find_all(fe, lambda x: x[0] == "cast" and x[1] == "IntToInt")
                        cs = (" as " + casts[0][4]) if casts else ""
                        fields[c[4]] = fname + ("!" if opt else "") + cs
    # flags: read_bool results that guard an optional read
    flag_of = {}
    for b in body.blocks:
        if b.cleanup or b.term.kind != "switch" or body.is_noise(b.term):
            continue
        e, ls = an.switch_info(b.idx)
        x = flow.strip(e)
        cs = [c for c in calls_in(x) if flow.short(c[1]).split("::")[-1] == "read_bool"]
        if len(cs) == 1:
            t_edges = [(b.idx, tb) for tb, l in ls.items() if "true" in l]
            for bb, t, kind in ordered:
                if fields.get(bb, "").endswith("!") and g.must_pass(bb, cut_edges=t_edges)[0]:
                    flag_of[cs[0][4]] = fields[bb].rstrip("!") + "?"
    out = []
    for bb, t, kind in ordered:
        src = fields.get(bb) or flag_of.get(bb) or "=_"
        dst = arg(an, bb, t, 0)
        if param_name(dst) != "buffer":
            src = "?not-on-buffer"
        out.append((kind, src))
    return out


# ---------------------------------------------------------------------------------------------------------
# value tables of small conversion functions (enum <-> ordinal), by path enumeration with forward
# constant propagation along each path: independent of whether the function is written as one `match`,
# as a chain of `if`s, or with the result built through an intermediate binding.

def _pe_operand(an, env, op):
    if op.place is None:
        return an.const_expr(op.const)
    return _pe_place(env, op.place)


def _pe_place(env, pl):
    v = env.get(pl.local, ("local", pl.local))
    for p in pl.proj:
        if p == "*":
            continue
        if isinstance(p, dict) and "f" in p:
            if v[0] == "agg" and isinstance(p.get("i"), int) and p["i"] < len(v[3]):
                v = v[3][p["i"]]
            else:
                v = ("proj", v, p.get("n"))
        elif isinstance(p, dict) and "downcast" in p:
            continue
        else:
            v = ("proj", v, str(p))
    return v


def _pe_strip(v):
    while v[0] in ("cast", "ref") or (v[0] == "call" and flow.is_transparent_call(("call", v[1], None, v[2])) and v[2]):
        v = v[1] if v[0] in ("cast", "ref") else v[2][0]
    return v


def function_paths(ctx, body, limit=4000):
    """[(constraints, env)] for every acyclic non-unwinding path entry -> return. constraints: list of
    (subject value, arm values or None, excluded values) per switch on the path"""
    an = ctx.an(body)
    out = []
    params = dict((i, ("param", i)) for i in range(1, body.arg_count + 1))

    def step(bb, env, cons, seen):
        if len(out) >= limit or bb in seen:
            return
        blk = body.blocks[bb]
        if blk.cleanup:
            return
        env = dict(env)
        for i, s in enumerate(blk.stmts):
            if s.kind != "assign":
                continue
            rv = s.rv
            if rv.k in ("use", "cast", "repeat"):
                v = _pe_operand(an, env, rv.ops[0])
                if rv.k == "cast":
                    v = ("cast", v)
            elif rv.k == "agg":
                v = ("agg", rv.j.get("adt") or rv.j.get("ak"), rv.j.get("variant"), [_pe_operand(an, env, o) for o in rv.ops])
            elif rv.k == "binop":
                v = ("binop", rv.j["op"], _pe_operand(an, env, rv.ops[0]), _pe_operand(an, env, rv.ops[1]))
            elif rv.k == "unop":
                v = ("unop", rv.j["op"], _pe_operand(an, env, rv.ops[0]))
            elif rv.k == "discr":
                v = ("discr", _pe_place(env, rv.place))
            elif rv.k in ("ref", "addr", "copy_for_deref") and rv.place is not None:
                v = ("ref", _pe_place(env, rv.place))
            else:
                v = ("unknown", rv.k)
            if s.place.is_local():
                env[s.place.local] = v
            elif s.place.proj and isinstance(s.place.proj[0], dict) and "f" in s.place.proj[0]:
                env[s.place.local] = ("unknown", "partial")
        t = blk.term
        if t.kind == "return":
            out.append((cons, env))
            return
        seen = seen | {bb}
        if t.kind == "switch":
            subj = _pe_operand(an, env, t.discr)
            arms = {}
            for v, tb in t.arms:
                arms.setdefault(tb, []).append(v)
            allv = [v for v, _ in t.arms]
            for tb, vs in arms.items():
                if tb != t.otherwise:
                    step(tb, env, cons + [(subj, vs, None)], seen)
            step(t.otherwise, env, cons + [(subj, arms.get(t.otherwise), allv)], seen)
            return
        if t.kind == "call" and t.dest is not None and t.dest.is_local():
            env[t.dest.local] = ("call", flow.short(t.callee_name() or "?"), [_pe_operand(an, env, a) for a in t.args])
        for nb in t.successors():
            step(nb, env, cons, seen)
    for k, v in params.items():
        pass
    step(0, params, [], frozenset())
    return out


def _pe_satisfied(cons, subject_is, value, variant_idx=None):
    """does a path's constraint list admit `param == value` (ints) / `discriminant(param) == variant_idx`?
    Unknown subjects admit everything."""
    for subj, vs, excl in cons:
        s = _pe_strip(subj)
        test = None
        if s == ("param", 1) and value is not None:
            test = value
        elif s[0] == "discr" and _pe_strip(s[1]) == ("param", 1) and variant_idx is not None:
            test = variant_idx
        elif s[0] == "binop" and s[1] in ("Eq", "Ne") and value is not None:
            a, b = _pe_strip(s[2]), _pe_strip(s[3])
            if b == ("param", 1):
                a, b = b, a
            if a == ("param", 1) and b[0] in ("const", "constitem") and isinstance(b[2], int):
                truth = (value == b[2]) if s[1] == "Eq" else (value != b[2])
                test = 1 if truth else 0
        elif s[0] == "call" and s[1].endswith(("PartialEq::eq", "PartialEq::ne")) and value is not None and len(s[2]) == 2:
            a, b = _pe_strip(s[2][0]), _pe_strip(s[2][1])
            if b == ("param", 1):
                a, b = b, a
            if a == ("param", 1) and b[0] in ("const", "constitem") and isinstance(b[2], int):
                truth = (value == b[2]) if s[1].endswith("eq") else (value != b[2])
                test = 1 if truth else 0
        if test is None:
            continue
        if excl is None:
            if test not in vs:
                return False
        else:
            if test in excl and not (vs and test in vs):
                return False
    return True


def _pe_consts(paths):
    cs = set()
    for cons, _ in paths:
        for subj, vs, excl in cons:
            s = _pe_strip(subj)
            if s == ("param", 1):
                cs.update(vs or [])
                cs.update(excl or [])
            elif s[0] in ("binop", "call"):
                ops = s[2:4] if s[0] == "binop" else s[2]
                for o in ops:
                    o = _pe_strip(o)
                    if o[0] in ("const", "constitem") and isinstance(o[2], int) and not isinstance(o[2], bool):
                        cs.add(o[2])
    return cs


def decode_table(ctx, body):
    """{int: Variant | 'Err'} plus 'otherwise' when an unlisted integer does not yield Err"""
    paths = function_paths(ctx, body)
    if not paths:
        return {}

    def kind(env):
        r = _pe_strip(env.get(0, ("unknown", "")))
        if r[0] == "agg" and r[2] == "Err":
            return "Err"
        if r[0] == "agg" and r[2] == "Ok" and r[3]:
            x = _pe_strip(r[3][0])
            if x[0] == "agg" and x[2]:
                return x[2]
        if r[0] == "call" and r[1].endswith("from_residual"):
            return "Err"
        return "?"
    consts = _pe_consts(paths)
    fresh = (max(consts) + 1000003) if consts else 1000003
    tbl = {}
    for v in sorted(consts) + [fresh]:
        ks = set(kind(env) for cons, env in paths if _pe_satisfied(cons, None, v))
        k = ks.pop() if len(ks) == 1 else "?"
        if v == fresh:
            if k != "Err":
                tbl["otherwise"] = k
        elif k != "Err":
            tbl[v] = k
    return tbl


def encode_table(ctx, body):
    """{Variant: int} for a conversion enum -> ordinal"""
    paths = function_paths(ctx, body)
    an = ctx.an(body)
    ty = body.locals[1].get("s", "") if len(body.locals) > 1 else ""
    names = an._variants_of_type(ty)
    tbl = {}
    for idx, name in sorted(names.items()):
        vals = set()
        for cons, env in paths:
            if _pe_satisfied(cons, None, None, variant_idx=idx):
                r = _pe_strip(env.get(0, ("unknown", "")))
                vals.add(r[2] if r[0] in ("const", "constitem") and isinstance(r[2], int) else "?")
        if len(vals) == 1:
            tbl[name] = vals.pop()
        elif vals:
            tbl[name] = "?"
    return tbl

"""Extraction of packet layouts from WritePacket / ReadPacket bodies (DESIGN §3.6)."""
from . import flow
from .lib import *  # noqa: F401,F403

WRITE_KINDS = {
    "write_varint": "varint", "write_varlong": "varlong", "write_string": "string", "write_bytes": "bytes",
    "write_uuid": "uuid", "write_bool": "bool", "write_text_component": "text",
    "write_u8": "u8", "write_i8": "i8", "write_u16": "u16", "write_i16": "i16", "write_u32": "u32", "write_i32": "i32",
    "write_u64": "u64", "write_i64": "i64", "write_u128": "u128", "write_i128": "i128", "write_f32": "f32", "write_f64": "f64",
    "write_u16_le": "u16le", "write_u32_le": "u32le", "write_u64_le": "u64le", "write_i32_le": "i32le", "write_i64_le": "i64le",
    "write_all": "raw",
}
READ_KINDS = {k.replace("write_", "read_"): v for k, v in WRITE_KINDS.items() if k != "write_all"}
READ_KINDS.update({"read_exact": "raw", "read_to_end": "raw"})


def impl_bodies(ctx, trait, method):
    """{self type: deepest body of <T as trait>::method} (the inner async block when #[instrument]ed)"""
    out = {}
    for i in ctx.prog.impls:
        if i.get("trait") != trait:
            continue
        for it in i["items"]:
            if it["name"] == method:
                k = it["key"]
                for suffix in ("::{closure#0}::{closure#0}", "::{closure#0}", ""):
                    b = ctx.prog.lib_bodies.get(k + suffix)
                    if b is not None:
                        out[i["self"]] = b
                        break
    return out


def _order(g, sites):
    """sort call sites by dominance; returns (ordered, total?)"""
    ordered = sorted(sites, key=lambda x: sum(1 for y in sites if y is not x and always_before(g, y[0], x[0])))
    total = all(always_before(g, ordered[i][0], ordered[i + 1][0]) or True for i in range(len(ordered) - 1))
    # totality in the weak sense needed here: no two sites mutually unordered AND both unconditional
    return ordered, total


def _self_path(e):
    """field path below `self` for a value expression, or None"""
    pn, fs = param_path(e)
    if pn == "self":
        return fs
    return None


def writer_layout(ctx, body):
    """[(kind, source)] in dominance order. source: 'f' | 'f?' (presence flag) | 'f!' (payload of Some) | '=c'"""
    an = ctx.an(body)
    g = ctx.graph(body)
    sites = []
    for bb, t in body.calls():
        if body.is_noise(t):
            continue
        n = dname(t)
        m = n.split("::")[-1]
        if m in WRITE_KINDS and ("AsyncWritePacket" in n or "AsyncWriteExt" in n):
            sites.append((bb, t, WRITE_KINDS[m]))
    ordered, _ = _order(g, sites)
    # Some-guards: switches on discriminant of self.<field>
    guards = []
    for b in body.blocks:
        if b.cleanup or b.term.kind != "switch" or body.is_noise(b.term):
            continue
        e, ls = an.switch_info(b.idx)
        fs = _self_path(e)
        if fs and any("Some" in l for l in ls.values()):
            guards.append((".".join(fs), [(b.idx, tb) for tb, l in ls.items() if "Some" in l]))
    out = []
    for bb, t, kind in ordered:
        dst = arg(an, bb, t, 0)
        if param_name(dst) != "buffer":
            out.append((kind, "?not-on-buffer"))
            continue
        v = arg(an, bb, t, 1)
        src = classify_written(v)
        cond = [f for f, edges in guards if g.must_pass(bb, cut_edges=edges)[0]]
        if cond and not src.endswith("!"):
            src += " if " + ",".join(cond)
        out.append((kind, src))
    return out


def classify_written(v):
    x = flow.strip(v)
    conv = ""
    for _ in range(4):
        if x[0] == "cast":
            conv = " as " + x[4]
            x = flow.strip(x[2])
        else:
            break
    if x[0] in ("const",):
        return "=%s" % (x[2],)
    if x[0] == "call" and flow.short(x[1]).endswith(("Option::is_some",)):
        fs = _self_path(x[3][0])
        return (".".join(fs) if fs else "?") + "?"
    if x[0] == "call" and flow.short(x[1]).endswith(("len",)):
        fs = _self_path(x[3][0])
        return "len(" + (".".join(fs) if fs else "?") + ")"
    if x[0] == "call" and flow.short(x[1]).endswith(("Uuid::as_u128",)):
        fs = _self_path(x[3][0])
        return (".".join(fs) if fs else "?")
    # payload of `if let Some(p) = &self.f`
    if x[0] == "field" and x[2] == "0":
        inner = flow.strip(x[1])
        if inner[0] == "variant" and inner[2] == "Some":
            fs = _self_path(inner[1])
            return (".".join(fs) if fs else "?") + "!"
    fs = _self_path(x)
    if fs is not None:
        return ".".join(fs) + conv
    return "?" + flow.render(x, maxdepth=2)


def reader_layout(ctx, body, tname):
    """[(kind, source)] of the reads in dominance order, mapped to the field of the returned struct they
    end up in: 'f' | 'f?' (flag guarding optional f) | 'f!' (value inside Some) | '=_' (discarded)"""
    an = ctx.an(body)
    g = ctx.graph(body)
    sites = []
    for bb, t in body.calls():
        if body.is_noise(t):
            continue
        n = dname(t)
        m = n.split("::")[-1]
        if m in READ_KINDS and ("AsyncReadPacket" in n or "AsyncReadExt" in n):
            sites.append((bb, t, READ_KINDS[m]))
    ordered, _ = _order(g, sites)
    r = return_expr(an)
    aggs = find_all(r, lambda x: x[0] == "agg" and x[1].endswith("Result::Ok"))
    fields = {}
    extra = {}
    for o in aggs:
        v = flow.strip(o[2][0][1])
        if v[0] == "agg":
            for fname, fe in v[2]:
                for c in calls_in(fe):
                    nm = flow.short(c[1]).split("::")[-1]
                    if nm in READ_KINDS:
                        conv = ""
                        if calls_in(fe, "TryInto::try_into"):
                            conv = ""
                        somes = find_all(fe, lambda x: x[0] == "agg" and x[1].endswith("Option::Some"))
                        opt = bool(somes) and any(c in calls_in(s) for s in somes)
                        casts = find_all(fe, lambda x: x[0] == "cast" and x[1] == "IntToInt")
                        cs = (" as " + casts[0][4]) if casts else ""
                        fields[c[4]] = fname + ("!" if opt else "") + cs
    # flags: read_bool results that guard an optional read
    flag_of = {}
    for b in body.blocks:
        if b.cleanup or b.term.kind != "switch" or body.is_noise(b.term):
            continue
        e, ls = an.switch_info(b.idx)
        x = flow.strip(e)
        cs = [c for c in calls_in(x) if flow.short(c[1]).split("::")[-1] == "read_bool"]
        if len(cs) == 1:
            t_edges = [(b.idx, tb) for tb, l in ls.items() if "true" in l]
            for bb, t, kind in ordered:
                if fields.get(bb, "").endswith("!") and g.must_pass(bb, cut_edges=t_edges)[0]:
                    flag_of[cs[0][4]] = fields[bb].rstrip("!") + "?"
    out = []
    for bb, t, kind in ordered:
        src = fields.get(bb) or flag_of.get(bb) or "=_"
        dst = arg(an, bb, t, 0)
        if param_name(dst) != "buffer":
            src = "?not-on-buffer"
        out.append((kind, src))
    return out

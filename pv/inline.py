"""MIR-level inlining of helper functions that do not exist on the pinned tree (spec/pinned.json).

A behaviour-preserving edit often moves a few statements into a new private helper. Rules are written against
the functions of the pinned tree; so before any rule runs, every call to a small, synchronous, non-recursive
workspace function that is NOT a pinned function is replaced by the callee's blocks (parameters become assigned
locals, `return` becomes an assignment to the call's destination). Pinned functions are never inlined: they are
the anchors the rules name. The transformation works on the JSON IR, before Body objects are built."""
import copy
import json
import os

from .flow import short

MAX_BLOCKS = 1200
MAX_DEPTH = 3
_pinned = None
_pinned_closures = None


def pinned():
    global _pinned
    if _pinned is None:
        path = os.path.join(os.path.dirname(os.path.dirname(os.path.abspath(__file__))), "spec", "pinned.json")
        try:
            with open(path) as fh:
                j = json.load(fh)
            _pinned = (set(j["fns"]), set(j["consts"]))
            global _pinned_closures
            _pinned_closures = set(j["closures"]) if "closures" in j else None
        except Exception:
            _pinned = (None, None)
    return _pinned


def _is_async(body_j):
    for b in body_j["blocks"]:
        for s in b["stmts"]:
            if s.get("s") == "assign" and s["rv"].get("k") == "agg" and s["rv"].get("ak") in ("coroutine", "coroutine_closure") \
                    and s["place"]["l"] == 0 and not s["place"]["p"]:
                return True
    return False


def _renum_place(p, off):
    q = {"l": p["l"] + off, "p": []}
    for e in p["p"]:
        if isinstance(e, dict) and "idx" in e:
            e = dict(e)
            e["idx"] = e["idx"] + off
        q["p"].append(e)
    return q


def _renum_operand(o, off):
    if "copy" in o:
        return {"copy": _renum_place(o["copy"], off)}
    if "move" in o:
        return {"move": _renum_place(o["move"], off)}
    return o


def _renum_rvalue(rv, off):
    rv = dict(rv)
    for k in ("op", "a", "b"):
        if k in rv and isinstance(rv[k], dict) and ("copy" in rv[k] or "move" in rv[k] or "const" in rv[k] or "rtcheck" in rv[k]):
            rv[k] = _renum_operand(rv[k], off)
    if "ops" in rv:
        rv["ops"] = [_renum_operand(o, off) for o in rv["ops"]]
    if "place" in rv:
        rv["place"] = _renum_place(rv["place"], off)
    return rv


def _renum_block(b, off, boff, dest, target, call_meta):
    nb = {"stmts": [], "term": None}
    if b.get("cleanup"):
        nb["cleanup"] = True
    for s in b["stmts"]:
        s2 = dict(s)
        if "place" in s2:
            s2["place"] = _renum_place(s2["place"], off)
        if "rv" in s2:
            s2["rv"] = _renum_rvalue(s2["rv"], off)
        nb["stmts"].append(s2)
    t = dict(b["term"])
    k = t["t"]

    def bb(x):
        return None if x is None else x + boff
    for key in ("target", "unwind", "drop", "imaginary", "otherwise"):
        if key in t and t[key] is not None:
            t[key] = bb(t[key])
    if "arms" in t:
        t["arms"] = [[a[0], bb(a[1])] for a in t["arms"]]
    if "targets" in t:
        t["targets"] = [bb(x) for x in t["targets"]]
    for key in ("discr", "func", "cond", "value"):
        if key in t:
            t[key] = _renum_operand(t[key], off)
    if "args" in t:
        t["args"] = [_renum_operand(a, off) for a in t["args"]]
    for key in ("dest", "place", "resume_arg"):
        if key in t:
            t[key] = _renum_place(t[key], off)
    if k == "return":
        ret = {"s": "assign", "place": dest, "rv": {"k": "use", "op": {"move": {"l": off, "p": []}}}}
        ret.update(call_meta)
        nb["stmts"].append(ret)
        if target is None:
            t = {"t": "unreachable"}
        else:
            t = {"t": "goto", "target": target}
        t.update(call_meta)
    nb["term"] = t
    return nb


def _succ1(t):
    """the single normal successor of a terminator, or None"""
    k = t["t"]
    if k in ("goto", "falseunwind", "falseedge", "call", "drop", "assert"):
        return t.get("target")
    return None


def _inline_async(body, i, orig, depth_of_block, d):
    """`f(args).await` where f is a non-pinned async fn: replace the poll loop by the coroutine body of f.
    Returns False (and changes nothing) when the await does not have the plain desugared shape."""
    fn_j, co_j = orig
    blocks = body["blocks"]
    blk = blocks[i]
    t = blk["term"]
    if t["dest"]["p"] or len(t["args"]) != fn_j["arg_count"]:
        return False
    # B: into_future(move F)
    chain = []
    cur = t["target"]
    poll_bb = None
    for _ in range(12):
        if cur is None or cur >= len(blocks):
            return False
        b = blocks[cur]
        chain.append(cur)
        tt = b["term"]
        if tt["t"] == "call" and "const" in tt["func"] and "fn" in tt["func"]["const"] \
                and short(tt["func"]["const"]["fn"].get("def", "")).endswith("Future::poll"):
            poll_bb = cur
            break
        if tt["t"] == "call":
            nm = short(tt["func"]["const"]["fn"].get("def", "")) if "const" in tt["func"] and "fn" in tt["func"]["const"] else ""
            if not nm.endswith(("IntoFuture::into_future", "Pin::<Ptr>::new_unchecked", "Pin::new_unchecked", "get_context")):
                return False
        cur = _succ1(tt)
    if poll_bb is None:
        return False
    first = blocks[chain[0]]["term"]
    if first["t"] != "call" or not short(first["func"]["const"]["fn"].get("def", "")).endswith("IntoFuture::into_future"):
        return False
    a0 = first["args"][0]
    if not ("move" in a0 and a0["move"]["l"] == t["dest"]["l"] and not a0["move"]["p"]):
        return False
    pt = blocks[poll_bb]["term"]
    if pt["dest"]["p"] or pt.get("target") is None:
        return False
    sw_bb = pt["target"]
    sw = blocks[sw_bb]["term"]
    if sw["t"] != "switch" or len(sw.get("arms", [])) != 2:
        return False
    arms = dict((a[0], a[1]) for a in sw["arms"])
    if 0 not in arms or 1 not in arms:
        return False
    ready_bb, pending_bb = arms[0], arms[1]
    pend = []
    cur = pending_bb
    for _ in range(6):
        if cur is None:
            return False
        pend.append(cur)
        if blocks[cur]["term"]["t"] == "yield":
            break
        cur = _succ1(blocks[cur]["term"])
    else:
        return False
    # --- transform
    off = len(body["locals"])
    boff = len(blocks)
    body["locals"].extend(copy.deepcopy(co_j["locals"]))
    meta = {"loc": t.get("loc", "")}
    if "x" in t:
        meta["x"] = t["x"]
        meta["cs"] = t.get("cs")
    agg = [s for b in fn_j["blocks"] for s in b["stmts"] if s.get("s") == "assign"][0]
    rv = copy.deepcopy(agg["rv"])
    ops = []
    for o in rv["ops"]:
        pl = o.get("move") or o.get("copy")
        k = pl["l"]
        if not (1 <= k <= len(t["args"])):
            return False
        ops.append(t["args"][k - 1])
    rv["ops"] = ops
    st = {"s": "assign", "place": {"l": off + 1, "p": []}, "rv": rv}
    st.update(meta)
    blk["stmts"].append(st)
    st = {"s": "assign", "place": {"l": off + 2, "p": []}, "rv": {"k": "use", "op": {"copy": {"l": 2, "p": []}}}}
    st.update(meta)
    blk["stmts"].append(st)
    for dv in co_j["debug"]:
        if "place" in dv:
            body["debug"].append({"name": dv["name"], "place": _renum_place(dv["place"], off)})
    poll_dest = pt["dest"]
    for cb in co_j["blocks"]:
        nb = _renum_block(cb, off, boff, {"l": off, "p": []}, None, meta)
        if cb["term"]["t"] == "return":
            nb["stmts"].pop()   # the `dest = move ret` written by _renum_block
            rs = {"s": "assign", "place": poll_dest,
                  "rv": {"k": "agg", "ak": "adt", "adt": "std::task::Poll", "variant": "Ready", "vidx": 0, "gargs": [],
                         "fields": ["0"], "ops": [{"move": {"l": off, "p": []}}]}}
            rs.update(meta)
            nb["stmts"].append(rs)
            g = {"t": "goto", "target": ready_bb}
            g.update(meta)
            nb["term"] = g
        blocks.append(nb)
    for j in range(boff, len(blocks)):
        depth_of_block[j] = d + 1
    g = {"t": "goto", "target": boff}
    g.update(meta)
    blk["term"] = g
    for k in chain + [sw_bb] + pend:
        dead = {"t": "unreachable"}
        dead.update(meta)
        blocks[k]["stmts"] = []
        blocks[k]["term"] = dead
    return True


def inline_crate(crate_j):
    """inline calls to non-pinned helpers inside every body of one crate (in place). Returns number of inlined calls"""
    fns, _ = pinned()
    if fns is None:
        return 0
    by_key = {b["key"]: b for b in crate_j["bodies"]}
    candidates = {}
    async_candidates = {}
    OPAQUE_TRAITS = (" as std::cmp::", " as core::cmp::", " as std::clone::Clone>", " as core::clone::Clone>", " as std::fmt::", " as core::fmt::",
                     " as std::hash::", " as core::hash::", " as std::default::Default>", " as core::default::Default>")
    for b in crate_j["bodies"]:
        if any(x in b["name"] for x in OPAQUE_TRAITS):
            continue    # (derived) comparison / clone / formatting impls of new types stay calls, like their std counterparts
        if b["kind"] in ("Fn", "AssocFn") and short(b["name"]) not in fns and len(b["blocks"]) <= MAX_BLOCKS:
            if not _is_async(b):
                candidates[b["key"]] = b
            else:
                co = by_key.get(b["key"] + "::{closure#0}")
                st = [s for blk in b["blocks"] for s in blk["stmts"] if s.get("s") == "assign"]
                # the fn body only builds the coroutine (moved-in arguments may add drop elaboration blocks)
                plain = all(blk["term"]["t"] in ("return", "drop", "goto", "resume", "unreachable") for blk in b["blocks"])
                if co is not None and plain and len(st) == 1 and st[0]["place"]["l"] == 0 and not st[0]["place"]["p"] \
                        and len(co["blocks"]) <= MAX_BLOCKS and \
                        all(("move" in o or "copy" in o) and not (o.get("move") or o.get("copy"))["p"] for o in st[0]["rv"]["ops"]):
                    async_candidates[b["key"]] = (b, co)
    # closure literals that do not exist on the pinned tree and are called directly (`(|| body)()`, what `#[instrument(ret)]`
    # wraps a function body in): merged like helpers. The closure takes (env, args...) while the call passes (env, (args,)).
    closure_candidates = {}
    if _pinned_closures is not None:
        for b in crate_j["bodies"]:
            if b["kind"] == "Closure" and not b.get("coroutine") and b["key"] not in _pinned_closures and len(b["blocks"]) <= MAX_BLOCKS:
                closure_candidates[b["key"]] = b
    if not candidates and not async_candidates and not closure_candidates:
        return 0
    closure_originals = {k: copy.deepcopy(v) for k, v in closure_candidates.items()}
    originals = {k: copy.deepcopy(v) for k, v in candidates.items()}
    async_originals = {k: (copy.deepcopy(f), copy.deepcopy(c)) for k, (f, c) in async_candidates.items()}
    n = 0
    for body in crate_j["bodies"]:
        if body["kind"] == "Promoted":
            continue
        depth_of_block = {}
        i = 0
        while i < len(body["blocks"]):
            blk = body["blocks"][i]
            t = blk["term"]
            if t["t"] == "call" and "const" in t["func"] and "fn" in t["func"]["const"] and not blk.get("cleanup"):
                fn = t["func"]["const"]["fn"]
                ck = fn.get("resolved_key") or fn.get("key")
                d = depth_of_block.get(i, 0)
                if ck in async_originals and ck != body["key"] and not body["key"].startswith(ck + "::") and d < MAX_DEPTH \
                        and body.get("coroutine") and t.get("target") is not None:
                    if _inline_async(body, i, async_originals[ck], depth_of_block, d):
                        for kk in (ck, ck + "::{closure#0}"):
                            if by_key.get(kk) is not None:
                                by_key[kk]["inlined_into_callers"] = True
                        body.setdefault("inlined", []).append(short(async_originals[ck][0]["name"]))
                        n += 1
                elif ck in closure_originals and ck != body["key"] and d < MAX_DEPTH and t.get("target") is not None \
                        and short(fn.get("def", "")).split("::")[-1] in ("call", "call_mut", "call_once") and len(t["args"]) == 2:
                    callee = closure_originals[ck]
                    off = len(body["locals"])
                    boff = len(body["blocks"])
                    body["locals"].extend(copy.deepcopy(callee["locals"]))
                    meta = {"loc": t.get("loc", "")}
                    if "x" in t:
                        meta["x"] = t["x"]
                        meta["cs"] = t.get("cs")
                    st = {"s": "assign", "place": {"l": off + 1, "p": []}, "rv": {"k": "use", "op": t["args"][0]}}
                    st.update(meta)
                    blk["stmts"].append(st)
                    tup = t["args"][1]
                    tp = tup.get("move") or tup.get("copy")
                    okc = True
                    for ai in range(2, callee["arg_count"] + 1):
                        if tp is None:
                            okc = False
                            break
                        fld = {"l": tp["l"], "p": list(tp["p"]) + [{"f": ai - 2, "n": str(ai - 2), "ty": callee["locals"][ai].get("s", "")}]}
                        st = {"s": "assign", "place": {"l": off + ai, "p": []}, "rv": {"k": "use", "op": {"move": fld}}}
                        st.update(meta)
                        blk["stmts"].append(st)
                    if okc:
                        for dv in callee["debug"]:
                            if "place" in dv:
                                body["debug"].append({"name": dv["name"], "place": _renum_place(dv["place"], off)})
                        for cb in callee["blocks"]:
                            body["blocks"].append(_renum_block(cb, off, boff, t["dest"], t["target"], meta))
                        for j in range(boff, len(body["blocks"])):
                            depth_of_block[j] = d + 1
                        g = {"t": "goto", "target": boff}
                        g.update(meta)
                        blk["term"] = g
                        body.setdefault("inlined", []).append(short(callee["name"]))
                        if by_key.get(ck) is not None:
                            by_key[ck]["inlined_into_callers"] = True
                        n += 1
                elif ck in originals and ck != body["key"] and d < MAX_DEPTH and t.get("target") is not None:
                    callee = originals[ck]
                    if callee["arg_count"] == len(t["args"]):
                        off = len(body["locals"])
                        boff = len(body["blocks"])
                        body["locals"].extend(copy.deepcopy(callee["locals"]))
                        meta = {"loc": t.get("loc", "")}
                        if "x" in t:
                            meta["x"] = t["x"]
                            meta["cs"] = t.get("cs")
                        for ai, a in enumerate(t["args"]):
                            st = {"s": "assign", "place": {"l": off + 1 + ai, "p": []}, "rv": {"k": "use", "op": a}}
                            st.update(meta)
                            blk["stmts"].append(st)
                        for dv in callee["debug"]:
                            if "place" in dv:
                                nd = {"name": dv["name"], "place": _renum_place(dv["place"], off)}
                                body["debug"].append(nd)
                        for cb in callee["blocks"]:
                            body["blocks"].append(_renum_block(cb, off, boff, t["dest"], t["target"], meta))
                        for j in range(boff, len(body["blocks"])):
                            depth_of_block[j] = d + 1
                        g = {"t": "goto", "target": boff}
                        g.update(meta)
                        blk["term"] = g
                        body.setdefault("inlined", []).append(short(callee["name"]))
                        callee_mark = by_key.get(ck)
                        if callee_mark is not None:
                            callee_mark["inlined_into_callers"] = True
                        n += 1
            i += 1
    return n

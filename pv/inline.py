"""MIR-level inlining of helper functions that do not exist on the pinned tree (spec/pinned.json).

A behaviour-preserving edit often moves a few statements into a new private helper. Rules are written against
the functions of the pinned tree; so before any rule runs, every call to a small, synchronous, non-recursive
workspace function that is NOT a pinned function is replaced by the callee's blocks (parameters become assigned
locals, `return` becomes an assignment to the call's destination). Pinned functions are never inlined: they are
the anchors the rules name. The transformation works on the JSON IR, before Body objects are built."""
import copy
import json
import os

from .flow import short

MAX_BLOCKS = 1200
MAX_DEPTH = 3
_pinned = None


def pinned():
    global _pinned
    if _pinned is None:
        path = os.path.join(os.path.dirname(os.path.dirname(os.path.abspath(__file__))), "spec", "pinned.json")
        try:
            with open(path) as fh:
                j = json.load(fh)
            _pinned = (set(j["fns"]), set(j["consts"]))
        except Exception:
            _pinned = (None, None)
    return _pinned


def _is_async(body_j):
    for b in body_j["blocks"]:
        for s in b["stmts"]:
            if s.get("s") == "assign" and s["rv"].get("k") == "agg" and s["rv"].get("ak") in ("coroutine", "coroutine_closure") \
                    and s["place"]["l"] == 0 and not s["place"]["p"]:
                return True
    return False


def _renum_place(p, off):
    q = {"l": p["l"] + off, "p": []}
    for e in p["p"]:
        if isinstance(e, dict) and "idx" in e:
            e = dict(e)
            e["idx"] = e["idx"] + off
        q["p"].append(e)
    return q


def _renum_operand(o, off):
    if "copy" in o:
        return {"copy": _renum_place(o["copy"], off)}
    if "move" in o:
        return {"move": _renum_place(o["move"], off)}
    return o


def _renum_rvalue(rv, off):
    rv = dict(rv)
    for k in ("op", "a", "b"):
        if k in rv and isinstance(rv[k], dict) and ("copy" in rv[k] or "move" in rv[k] or "const" in rv[k] or "rtcheck" in rv[k]):
            rv[k] = _renum_operand(rv[k], off)
    if "ops" in rv:
        rv["ops"] = [_renum_operand(o, off) for o in rv["ops"]]
    if "place" in rv:
        rv["place"] = _renum_place(rv["place"], off)
    return rv


def _renum_block(b, off, boff, dest, target, call_meta):
    nb = {"stmts": [], "term": None}
    if b.get("cleanup"):
        nb["cleanup"] = True
    for s in b["stmts"]:
        s2 = dict(s)
        if "place" in s2:
            s2["place"] = _renum_place(s2["place"], off)
        if "rv" in s2:
            s2["rv"] = _renum_rvalue(s2["rv"], off)
        nb["stmts"].append(s2)
    t = dict(b["term"])
    k = t["t"]

    def bb(x):
        return None if x is None else x + boff
    for key in ("target", "unwind", "drop", "imaginary", "otherwise"):
        if key in t and t[key] is not None:
            t[key] = bb(t[key])
    if "arms" in t:
        t["arms"] = [[a[0], bb(a[1])] for a in t["arms"]]
    if "targets" in t:
        t["targets"] = [bb(x) for x in t["targets"]]
    for key in ("discr", "func", "cond", "value"):
        if key in t:
            t[key] = _renum_operand(t[key], off)
    if "args" in t:
        t["args"] = [_renum_operand(a, off) for a in t["args"]]
    for key in ("dest", "place", "resume_arg"):
        if key in t:
            t[key] = _renum_place(t[key], off)
    if k == "return":
        ret = {"s": "assign", "place": dest, "rv": {"k": "use", "op": {"move": {"l": off, "p": []}}}}
        ret.update(call_meta)
        nb["stmts"].append(ret)
        if target is None:
            t = {"t": "unreachable"}
        else:
            t = {"t": "goto", "target": target}
        t.update(call_meta)
    nb["term"] = t
    return nb


def inline_crate(crate_j):
    """inline calls to non-pinned helpers inside every body of one crate (in place). Returns number of inlined calls"""
    fns, _ = pinned()
    if fns is None:
        return 0
    by_key = {b["key"]: b for b in crate_j["bodies"]}
    candidates = {}
    for b in crate_j["bodies"]:
        if b["kind"] in ("Fn", "AssocFn") and short(b["name"]) not in fns and len(b["blocks"]) <= MAX_BLOCKS and not _is_async(b):
            candidates[b["key"]] = b
    if not candidates:
        return 0
    originals = {k: copy.deepcopy(v) for k, v in candidates.items()}
    n = 0
    for body in crate_j["bodies"]:
        if body["kind"] == "Promoted":
            continue
        depth_of_block = {}
        i = 0
        while i < len(body["blocks"]):
            blk = body["blocks"][i]
            t = blk["term"]
            if t["t"] == "call" and "const" in t["func"] and "fn" in t["func"]["const"] and not blk.get("cleanup"):
                fn = t["func"]["const"]["fn"]
                ck = fn.get("resolved_key") or fn.get("key")
                d = depth_of_block.get(i, 0)
                if ck in originals and ck != body["key"] and d < MAX_DEPTH and t.get("target") is not None:
                    callee = originals[ck]
                    if callee["arg_count"] == len(t["args"]):
                        off = len(body["locals"])
                        boff = len(body["blocks"])
                        body["locals"].extend(copy.deepcopy(callee["locals"]))
                        meta = {"loc": t.get("loc", "")}
                        if "x" in t:
                            meta["x"] = t["x"]
                            meta["cs"] = t.get("cs")
                        for ai, a in enumerate(t["args"]):
                            st = {"s": "assign", "place": {"l": off + 1 + ai, "p": []}, "rv": {"k": "use", "op": a}}
                            st.update(meta)
                            blk["stmts"].append(st)
                        for dv in callee["debug"]:
                            if "place" in dv:
                                nd = {"name": dv["name"], "place": _renum_place(dv["place"], off)}
                                body["debug"].append(nd)
                        for cb in callee["blocks"]:
                            body["blocks"].append(_renum_block(cb, off, boff, t["dest"], t["target"], meta))
                        for j in range(boff, len(body["blocks"])):
                            depth_of_block[j] = d + 1
                        g = {"t": "goto", "target": boff}
                        g.update(meta)
                        blk["term"] = g
                        body.setdefault("inlined", []).append(short(callee["name"]))
                        callee_mark = by_key.get(ck)
                        if callee_mark is not None:
                            callee_mark["inlined_into_callers"] = True
                        n += 1
            i += 1
    return n

"""Event scripts and typestate automata (DESIGN §3.2): events are call sites of interest recognised by
resolved callee; a DFA over events is explored on the product with the (flag-refined) CFG."""
from collections import deque

from . import flow
from .lib import calls, cname, dname, garg, arg, site
from .flow import short, strip, render


def packet_short(t):
    """passage_packets::login::serverbound::CookieResponsePacket -> login::serverbound::CookieResponse"""
    if t is None:
        return "?"
    t = t.replace("passage_packets::", "")
    if t.endswith("Packet"):
        t = t[:-6]
    return t


ADAPTER_CALLS = {
    "StatusAdapter::status": "status",
    "AuthenticationAdapter::authenticate": "authenticate",
    "DiscoveryAdapter::discover": "discover",
    "FilterAdapter::filter": "filter",
    "StrategyAdapter::select": "select",
    "LocalizationAdapter::localize": "localize",
    "crypto::generate_token": "generate_token",
    "crypto::verify_token": "verify_token",
    "crypto::decrypt": "decrypt",
    "Connection::apply_encryption": "apply_encryption",
    "cookie::verify": "cookie_verify",
    "cookie::sign": "cookie_sign",
    "Connection::keep_alive": "keep_alive",
    "Connection::handle_keep_alive": "handle_keep_alive",
    "crypto::generate_keep_alive": "generate_keep_alive",
}


def _key_of(e):
    """constant string key of a cookie packet aggregate's `key` field"""
    e = strip(e)
    if e[0] == "agg":
        for n, v in e[2]:
            if n == "key":
                v = strip(v, extra=("to_string", "to_owned"))
                if v[0] == "constitem":
                    return v[2]
                if v[0] == "const":
                    return v[2]
                return "?"
    return None


def extract(ctx, body, _mode=True):
    """{bb: [(pos, event, site)]} for a connection-handler body"""
    an = ctx.an(body)
    ev = {}

    def add(bb, pos, name, st):
        ev.setdefault(bb, []).append((pos, name, st))

    for bb, t in body.calls():
        if body.is_noise(t):
            continue
        n1, n2 = dname(t), cname(t)
        st = site(body, bb)
        if n1.endswith("Connection::receive_packet"):
            ka = t.args[1].const_bool()
            lab = "?" if ka is None else str(ka).lower()
            if ka is None and _mode:
                # the mode may be spelled with another two-valued type than bool (listen_common.KeepAliveMode)
                km = getattr(ctx, "_keepalive_mode", None)
                if km is None:
                    from .rules.listen_common import KeepAliveMode
                    km = ctx._keepalive_mode = KeepAliveMode(ctx)
                lab = km.classify(an.operand_expr(t.args[1], (bb, "term")))
            add(bb, 10 ** 9, "rp:%s" % lab, st)
        elif n1.endswith("ReadPacket::read_from_buffer"):
            add(bb, 10 ** 9, "recv:" + packet_short(garg(t, 0)), st)
        elif n1.endswith("Connection::send_packet"):
            T = t.callee["gargs"][-1]
            name = "send:" + packet_short(T)
            if T.endswith(("CookieRequestPacket", "StoreCookiePacket")):
                name += "[%s]" % _key_of(arg(an, bb, t, 1))
            add(bb, 10 ** 9, name, st)
        else:
            for suf, nm in ADAPTER_CALLS.items():
                if n1.endswith(suf) or n2.endswith(suf):
                    add(bb, 10 ** 9, "call:" + nm, st)
                    break
    # returns: assignments to _0 — or to a local whose value only travels on to _0 (the return slot of a helper merged into
    # this body: `_r = Ok(..)`, `_p = Poll::Ready(move _r)`, `_v = (_p as Ready).0`, `_0 = move _v`)
    carriers = {0}
    grew = True
    while grew:
        grew = False
        for b in body.blocks:
            if b.cleanup:
                continue
            for s in b.stmts:
                if s.kind != "assign" or not s.place.is_local() or s.place.local not in carriers or body.is_noise(s):
                    continue
                src = None
                if s.rv.k == "use" and s.rv.ops and s.rv.ops[0].place is not None:
                    pl = s.rv.ops[0].place
                    if pl.is_local() or [p for p in pl.proj if isinstance(p, dict) and p.get("dc") == "Ready"] or \
                            (len(pl.proj) == 2 and isinstance(pl.proj[0], dict) and "dc" in pl.proj[0]):
                        src = pl.local
                elif s.rv.k == "agg" and s.rv.j.get("adt", "").endswith("task::Poll") and s.rv.j.get("variant") == "Ready" and s.rv.ops \
                        and s.rv.ops[0].place is not None and s.rv.ops[0].place.is_local():
                    src = s.rv.ops[0].place.local
                if src is not None and src not in carriers and src > body.arg_count:
                    carriers.add(src)
                    grew = True
    # a literal `Err(Error::X)` built in the return slot of a helper merged into this body and then propagated with `?`:
    # the error kind is known where it is built (the `?` site only sees "some error")
    literal_err = {}
    if body.j.get("inlined"):
        for b in body.blocks:
            if b.cleanup:
                continue
            for i, s in enumerate(b.stmts):
                if s.kind == "assign" and s.place.is_local() and s.place.local not in carriers and not body.is_noise(s) \
                        and s.rv.k == "agg" and s.rv.j.get("adt", "").endswith("result::Result") and s.rv.j.get("variant") == "Err":
                    e = strip(an.operand_expr(s.rv.ops[0], (b.idx, i)))
                    if e[0] == "call" and short(e[1]).endswith(("Into::into", "From::from")) and e[3]:
                        e = strip(e[3][0])
                    if e[0] == "agg":
                        add(b.idx, i, "ret:err:" + e[1].split("::")[-1], body.site(s))
                        literal_err[b.idx] = True
    for b in body.blocks:
        if b.cleanup:
            continue
        for i, s in enumerate(b.stmts):
            if s.kind == "assign" and s.place.is_local() and s.place.local in carriers and not body.is_noise(s):
                rv = s.rv
                if rv.k == "use" and rv.ops and rv.ops[0].place is not None and rv.ops[0].place.local in carriers:
                    continue    # the value was classified where it was produced
                if rv.k == "agg" and rv.j.get("adt", "").endswith("task::Poll"):
                    continue
                if rv.k == "agg" and rv.j.get("adt", "").endswith("result::Result"):
                    if rv.j["variant"] == "Ok":
                        add(b.idx, i, "ret:ok", body.site(s))
                    else:
                        e = strip(an.operand_expr(rv.ops[0], (b.idx, i)))
                        v = "?"
                        if e[0] == "agg":
                            v = e[1].split("::")[-1]
                        elif e[0] == "call" and short(e[1]).endswith(("Into::into", "From::from")):
                            inner = strip(e[3][0])
                            if inner[0] == "agg":
                                v = inner[1].split("::")[-1]
                        add(b.idx, i, "ret:err:" + v, body.site(s))
                else:
                    add(b.idx, i, "ret:?", body.site(s))
        t = b.term
        if t.kind == "call" and t.dest is not None and t.dest.is_local() and t.dest.local in carriers:
            if dname(t).endswith("FromResidual::from_residual"):
                add(b.idx, 10 ** 9, "ret:err:?", body.site(t))
            else:
                add(b.idx, 10 ** 9, "ret:?", body.site(t))
    for bb in ev:
        ev[bb].sort(key=lambda x: x[0])
    return ev


class Dfa(object):
    def __init__(self, spec):
        self.init = spec["init"]
        self.states = spec["states"]
        self.any = spec.get("any", {})
        self.end = spec.get("end", "END")
        self.ignore = set(spec.get("ignore", []))

    def step(self, state, event):
        if event in self.ignore:
            return state
        tr = self.states.get(state, {})
        if event in tr:
            return tr[event]
        if state == self.end and event == "ret:err:?":
            return state    # the `?` that carries an already classified error outwards (helper merged into this body)
        if state != self.end and event in self.any:
            return self.any[event]
        return None


def explore(graph, events, dfa, max_reports=20):
    """Explore (CFG node × DFA state). Returns (violations, visited_count, transitions, states_seen).
    A violation = (event, state, site, witness[(event, site)...])"""
    start = (0, dfa.init)
    parent = {start: (None, None)}
    work = deque([start])
    viol = {}
    trans = 0
    seen_states = set()
    at = {}
    while work:
        cur = work.popleft()
        n, st = cur
        bb = graph.bb(n)
        seen_states.add(st)
        dead = False
        hist = []
        for pos, e, s in events.get(bb, []):
            nxt = dfa.step(st, e)
            trans += 1
            at.setdefault((bb, e), set()).add(st)
            if nxt is None:
                k = (e, st)
                if k not in viol and len(viol) < max_reports:
                    viol[k] = (e, st, s, _witness(parent, cur, graph, events) + hist)
                dead = True
                break
            hist.append((e, s))
            st = nxt
        if dead:
            continue
        seen_states.add(st)
        for m in graph.succ[n]:
            k = (m, st)
            if k not in parent:
                parent[k] = (cur, None)
                work.append(k)
    explore.last_at = at
    return list(viol.values()), len(parent), trans, seen_states


def _witness(parent, cur, graph, events):
    chain = []
    x = cur
    while x is not None:
        chain.append(x)
        x = parent[x][0]
    chain.reverse()
    out = []
    for (n, st) in chain[:-1]:
        for pos, e, s in events.get(graph.bb(n), []):
            out.append((e, s))
    # compress repeated runs
    comp = []
    for x in out:
        if not comp or comp[-1] != x:
            comp.append(x)
    return comp[-25:]

"""Engine C (DESIGN §3.4): decision DAGs / guard normal forms.

A small boolean-valued region is enumerated path by path (tracing-macro regions are skipped through their
immediate post-dominator); every branch on a boolean or enum discriminant contributes an atom with the
edge label taken; the value produced at the end of the path is translated to a formula as well. Formulas are
compared with reference predicates by exhaustive evaluation over the atoms (finite abstract domain)."""
import itertools

from . import flow
from .lib import *  # noqa: F401,F403

T = ("true",)
F = ("false",)


def f_not(a):
    if a == T:
        return F
    if a == F:
        return T
    if a[0] == "not":
        return a[1]
    return ("not", a)


def f_and(*xs):
    out = []
    for x in xs:
        if x == F:
            return F
        if x == T:
            continue
        out.append(x)
    if not out:
        return T
    return out[0] if len(out) == 1 else ("and",) + tuple(out)


def f_or(*xs):
    out = []
    for x in xs:
        if x == T:
            return T
        if x == F:
            continue
        out.append(x)
    if not out:
        return F
    return out[0] if len(out) == 1 else ("or",) + tuple(out)


def atoms_of(f, acc=None):
    acc = acc if acc is not None else []
    if f[0] == "atom":
        if f[1] not in acc:
            acc.append(f[1])
    elif f[0] in ("and", "or"):
        for x in f[1:]:
            atoms_of(x, acc)
    elif f[0] == "not":
        atoms_of(f[1], acc)
    return acc


def evalf(f, val):
    k = f[0]
    if k == "true":
        return True
    if k == "false":
        return False
    if k == "atom":
        return val[f[1]]
    if k == "not":
        return not evalf(f[1], val)
    if k == "and":
        return all(evalf(x, val) for x in f[1:])
    if k == "or":
        return any(evalf(x, val) for x in f[1:])
    raise ValueError(k)


def equivalent(f, g, atoms, constraint=None):
    """exhaustive comparison over `atoms`; returns (ok, counterexample valuation or None, rows)"""
    rows = 0
    for bits in itertools.product([False, True], repeat=len(atoms)):
        val = dict(zip(atoms, bits))
        if constraint is not None and not constraint(val):
            continue
        rows += 1
        if evalf(f, val) != evalf(g, val):
            return False, val, rows
    return True, None, rows


def show(f):
    k = f[0]
    if k in ("true", "false"):
        return k
    if k == "atom":
        return str(f[1])
    if k == "not":
        return "¬" + show(f[1])
    sep = " ∧ " if k == "and" else " ∨ "
    return "(" + sep.join(show(x) for x in f[1:]) + ")"


# ---- path enumeration ------------------------------------------------------------------------

def _ipdom(body):
    """immediate post-dominators over the normal CFG (simple iterative algorithm)"""
    n = len(body.blocks)
    exits = [b.idx for b in body.blocks if not b.cleanup and not body.succ[b.idx]]
    EXIT = n
    succ = [list(s) for s in body.succ] + [[]]
    for e in exits:
        succ[e] = [EXIT]
    order = []
    seen = set()

    def dfs(u):
        stack = [(u, iter([p for p in range(n) if u in succ[p]] if u != EXIT else exits))]
        seen.add(u)
        while stack:
            node, it = stack[-1]
            adv = False
            for v in it:
                if v not in seen:
                    seen.add(v)
                    preds = [p for p in range(n) if v in succ[p]]
                    stack.append((v, iter(preds)))
                    adv = True
                    break
            if not adv:
                order.append(node)
                stack.pop()
    dfs(EXIT)
    rpo = list(reversed(order))
    idx = {b: i for i, b in enumerate(rpo)}
    idom = {EXIT: EXIT}

    def inter(a, b):
        while a != b:
            while idx[a] > idx[b]:
                a = idom[a]
            while idx[b] > idx[a]:
                b = idom[b]
        return a
    changed = True
    while changed:
        changed = False
        for b in rpo[1:]:
            ss = [s for s in succ[b] if s in idom]
            if not ss:
                continue
            new = ss[0]
            for s in ss[1:]:
                new = inter(new, s)
            if idom.get(b) != new:
                idom[b] = new
                changed = True
    return idom, EXIT


def paths(ctx, body, start_bb=0, max_paths=4096):
    """[(conds, blocks)] for every acyclic path start -> return. conds = [(switch_bb, target_bb)] for
    every non-noise switch passed"""
    an = ctx.an(body)
    ipd = getattr(body, "_ipdom", None)
    if ipd is None:
        ipd = body._ipdom = _ipdom(body)
    idom, EXIT = ipd
    out = []

    def go(bb, conds, blocks, visited):
        if len(out) >= max_paths:
            return
        for _ in range(100000):
            blk = body.blocks[bb]
            if bb in visited:
                return  # loop: abandon this path (callers treat loops separately)
            visited = visited | {bb}
            blocks = blocks + [bb]
            t = blk.term
            if t.kind == "return":
                out.append((conds, blocks))
                return
            ss = body.succ[bb]
            if not ss:
                return
            if t.kind == "switch":
                if body.is_noise(t):
                    j = idom.get(bb)
                    if j is None or j == EXIT:
                        return
                    bb = j
                    continue
                for tb in sorted(set(ss)):
                    go(tb, conds + [(bb, tb)], blocks, visited)
                return
            bb = ss[0]
    go(start_bb, [], [], frozenset())
    return out


def path_value(ctx, body, blocks, local=0):
    """expression last assigned to `local` along the path"""
    an = ctx.an(body)
    val = None
    for bb in blocks:
        blk = body.blocks[bb]
        for i, s in enumerate(blk.stmts):
            if s.kind == "assign" and s.place.is_local() and s.place.local == local:
                val = an.rvalue_expr(s.rv, (bb, i), 0)
        t = blk.term
        if t.kind == "call" and t.dest is not None and t.dest.is_local() and t.dest.local == local:
            val = an._def_value(t, (bb, "term"), 0)
    return val


# ---- expression -> formula ---------------------------------------------------------------------

def canon(e, bind=None):
    """canonical string of a value expression (references, clones and string views looked through)"""
    bind = bind or {}
    x = flow.strip(e, extra=("as_str", "as_slice", "as_bytes", "iter", "into_iter", "IntoIterator::into_iter"))
    k = x[0]
    if k == "param":
        return bind.get(("param", x[2]), "param:%s" % x[2])
    if k == "env":
        return "env"
    if k == "field":
        b = flow.strip(x[1])
        if b[0] == "env":
            nm = x[2][6:] if x[2].startswith("_ref__") else x[2]
            return bind.get(("env", nm), "cap:%s" % nm)
        return "%s.%s" % (canon(x[1], bind), x[2])
    if k == "variant":
        return "%s@%s" % (canon(x[1], bind), x[2])
    if k == "agg":
        if x[1].endswith("Option::Some"):
            return "Some(%s)" % canon(x[2][0][1], bind)
        if x[1].endswith("Option::None"):
            return "None"
        return "%s{%s}" % (x[1].split("::")[-1], ",".join("%s:%s" % (n, canon(v, bind)) for n, v in x[2]))
    if k == "const":
        return repr(x[2])
    if k == "constitem":
        return x[1].split("::")[-1]
    if k == "call":
        return "%s(%s)" % ("::".join(flow.short(x[2] or x[1]).split("::")[-2:]), ",".join(canon(a, bind) for a in x[3]))
    if k == "phi":
        return "phi(%s)" % "|".join(sorted(canon(y, bind) for y in x[1]))
    if k in ("try", "await", "cast"):
        return "%s(%s)" % (k, canon(x[2] if k == "cast" else x[1], bind))
    if k == "binop":
        return "%s(%s,%s)" % (x[1], canon(x[2], bind), canon(x[3], bind))
    if k == "unop":
        return "%s(%s)" % (x[1], canon(x[2], bind))
    return flow.render(x, maxdepth=3)


def closure_formula(ctx, clo, args, parent_bind=None):
    """formula of a bool-returning closure value `clo` (aggregate expr) applied to canonical args"""
    c = flow.strip(clo)
    if c[0] != "agg" or not c[1].startswith("closure:"):
        return ("atom", ("opaque-closure", canon(clo, parent_bind)))
    key = c[1].split(":", 1)[1]
    body = ctx.prog.lib_bodies.get(key)
    if body is None:
        return ("atom", ("opaque-closure", key))
    bind = {}
    for n, v in c[2]:
        nm = n[6:] if n.startswith("_ref__") else n
        bind[("env", nm)] = canon(v, parent_bind)
    names = [body.local_name(i) for i in range(2, body.arg_count + 1)]
    for nm, a in zip(names, args):
        bind[("param", nm)] = a
    return function_formula(ctx, body, bind)


def function_formula(ctx, body, bind=None, start_bb=0, value_of=None):
    """OR over paths of (path conditions ∧ value) for a bool-valued body"""
    an = ctx.an(body)
    alts = []
    for conds, blocks in paths(ctx, body, start_bb):
        cf = []
        for sb, tb in conds:
            e, ls = an.switch_info(sb)
            labs = ls.get(tb, [])
            cf.append(cond_formula(ctx, e, labs, bind))
        v = path_value(ctx, body, blocks)
        vf = value_of(v) if value_of else expr_formula(ctx, v, bind)
        alts.append(f_and(*(cf + [vf])))
    return f_or(*alts)


def cond_formula(ctx, e, labels, bind):
    if "true" in labels or "false" in labels:
        f = expr_formula(ctx, e, bind)
        return f if "true" in labels else f_not(f)
    # enum discriminant: atom per (subject, variant)
    subj = canon(e, bind)
    return f_or(*[("atom", ("is", subj, l)) for l in labels])


def expr_formula(ctx, e, bind=None):
    if e is None:
        return ("atom", ("opaque", "none"))
    x = flow.strip(e)
    k = x[0]
    if k == "const" and isinstance(x[2], bool):
        return T if x[2] else F
    if k == "unop" and x[1] == "Not":
        return f_not(expr_formula(ctx, x[2], bind))
    if k == "phi":
        return ("atom", ("opaque", canon(x, bind)))
    if k == "binop" and x[1] in ("Eq", "Ne", "Lt", "Le", "Gt", "Ge"):
        a, b = canon(x[2], bind), canon(x[3], bind)
        op = x[1]
        if op == "Ne":
            return f_not(("atom", ("Eq",) + tuple(sorted((a, b)))))
        if op == "Eq":
            return ("atom", ("Eq",) + tuple(sorted((a, b))))
        # normalise to Lt / Le with ordered operands: a > b == b < a ; a >= b == !(a < b)
        if op == "Gt":
            return ("atom", ("Lt", b, a))
        if op == "Ge":
            return f_not(("atom", ("Lt", a, b)))
        if op == "Le":
            return f_not(("atom", ("Lt", b, a)))
        return ("atom", ("Lt", a, b))
    if k == "call":
        nm = flow.short(x[2] or x[1])
        d = flow.short(x[1])
        last = d.split("::")[-1]
        if last in ("eq", "ne") and len(x[3]) == 2:
            a, b = canon(x[3][0], bind), canon(x[3][1], bind)
            at = ("atom", ("Eq",) + tuple(sorted((a, b))))
            return at if last == "eq" else f_not(at)
        if d.endswith("Option::is_some"):
            return ("atom", ("some", canon(x[3][0], bind)))
        if d.endswith("Option::is_none"):
            return f_not(("atom", ("some", canon(x[3][0], bind))))
        if d.endswith("Option::is_some_and"):
            subj = canon(x[3][0], bind)
            return f_and(("atom", ("some", subj)), closure_formula(ctx, x[3][1], ["payload(%s)" % subj], bind))
        if d.endswith("Option::is_none_or"):
            subj = canon(x[3][0], bind)
            return f_or(f_not(("atom", ("some", subj))), closure_formula(ctx, x[3][1], ["payload(%s)" % subj], bind))
        if d.endswith(("Iterator::any", "Iterator::all")):
            src = canon(x[3][0], bind)
            inner = closure_formula(ctx, x[3][1], ["ELEM"], bind)
            return ("atom", (last, src, show(inner)))
        if d.endswith("Regex::is_match"):
            return ("atom", ("match", canon(x[3][0], bind), canon(x[3][1], bind)))
        if d.endswith(("Vec::<T, A>::is_empty", "Vec::is_empty", "is_empty")):
            return ("atom", ("empty", canon(x[3][0], bind)))
        if d.endswith(("contains",)):
            return ("atom", ("contains", canon(x[3][0], bind), canon(x[3][1], bind)))
    return ("atom", ("opaque", canon(x, bind)))

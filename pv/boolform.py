"""Engine C (DESIGN §3.4): decision DAGs / guard normal forms.

A small boolean-valued region is enumerated path by path (tracing-macro regions are skipped through their
immediate post-dominator); every branch on a boolean or enum discriminant contributes an atom with the
edge label taken; the value produced at the end of the path is translated to a formula as well. Formulas are
compared with reference predicates by exhaustive evaluation over the atoms (finite abstract domain)."""
import itertools

from . import flow
from .lib import *  # noqa: F401,F403

T = ("true",)
F = ("false",)


def f_not(a):
    if a == T:
        return F
    if a == F:
        return T
    if a[0] == "not":
        return a[1]
    return ("not", a)


def f_and(*xs):
    out = []
    for x in xs:
        if x == F:
            return F
        if x == T:
            continue
        out.append(x)
    if not out:
        return T
    return out[0] if len(out) == 1 else ("and",) + tuple(out)


def f_or(*xs):
    out = []
    for x in xs:
        if x == T:
            return T
        if x == F:
            continue
        out.append(x)
    if not out:
        return F
    return out[0] if len(out) == 1 else ("or",) + tuple(out)


def atoms_of(f, acc=None):
    acc = acc if acc is not None else []
    if f[0] == "atom":
        if f[1] not in acc:
            acc.append(f[1])
    elif f[0] in ("and", "or"):
        for x in f[1:]:
            atoms_of(x, acc)
    elif f[0] == "not":
        atoms_of(f[1], acc)
    return acc


def evalf(f, val):
    k = f[0]
    if k == "true":
        return True
    if k == "false":
        return False
    if k == "atom":
        return val[f[1]]
    if k == "not":
        return not evalf(f[1], val)
    if k == "and":
        return all(evalf(x, val) for x in f[1:])
    if k == "or":
        return any(evalf(x, val) for x in f[1:])
    raise ValueError(k)


def equivalent(f, g, atoms, constraint=None):
    """exhaustive comparison over `atoms`; returns (ok, counterexample valuation or None, rows)"""
    rows = 0
    for bits in itertools.product([False, True], repeat=len(atoms)):
        val = dict(zip(atoms, bits))
        if constraint is not None and not constraint(val):
            continue
        rows += 1
        if evalf(f, val) != evalf(g, val):
            return False, val, rows
    return True, None, rows


def show(f):
    k = f[0]
    if k in ("true", "false"):
        return k
    if k == "atom":
        return str(f[1])
    if k == "not":
        return "¬" + show(f[1])
    sep = " ∧ " if k == "and" else " ∨ "
    return "(" + sep.join(show(x) for x in f[1:]) + ")"


# ---- path enumeration ------------------------------------------------------------------------

def _ipdom(body):
    """immediate post-dominators over the normal CFG (simple iterative algorithm)"""
    n = len(body.blocks)
    exits = [b.idx for b in body.blocks if not b.cleanup and not body.succ[b.idx]]
    EXIT = n
    succ = [list(s) for s in body.succ] + [[]]
    for e in exits:
        succ[e] = [EXIT]
    order = []
    seen = set()

    def dfs(u):
        stack = [(u, iter([p for p in range(n) if u in succ[p]] if u != EXIT else exits))]
        seen.add(u)
        while stack:
            node, it = stack[-1]
            adv = False
            for v in it:
                if v not in seen:
                    seen.add(v)
                    preds = [p for p in range(n) if v in succ[p]]
                    stack.append((v, iter(preds)))
                    adv = True
                    break
            if not adv:
                order.append(node)
                stack.pop()
    dfs(EXIT)
    rpo = list(reversed(order))
    idx = {b: i for i, b in enumerate(rpo)}
    idom = {EXIT: EXIT}

    def inter(a, b):
        while a != b:
            while idx[a] > idx[b]:
                a = idom[a]
            while idx[b] > idx[a]:
                b = idom[b]
        return a
    changed = True
    while changed:
        changed = False
        for b in rpo[1:]:
            ss = [s for s in succ[b] if s in idom]
            if not ss:
                continue
            new = ss[0]
            for s in ss[1:]:
                new = inter(new, s)
            if idom.get(b) != new:
                idom[b] = new
                changed = True
    return idom, EXIT


def _iter_loop(ctx, body, g, n):
    """if node n is the header of a side-effect-free `for x in it { if C(x) { return V } }` loop, return
    (summary, none_node): summary = {"src": iterated expr, "elem": expr of x, "alts": [conds of each early-exit path],
    "exit_blocks": blocks of one early-exit path}; none_node = where the walk continues when the iterator is exhausted"""
    an = ctx.an(body)
    bb = g.bb(n)
    t = body.blocks[bb].term
    if t.kind != "call" or not (t.callee_name() or "").endswith("::next") or not flow.short(t.callee["def"]).endswith("Iterator::next"):
        return None
    # the switch on the result
    cur = n
    sw = None
    for _ in range(4):
        ss = g.succ[cur]
        if len(ss) != 1:
            break
        cur = ss[0]
        if body.blocks[g.bb(cur)].term.kind == "switch":
            sw = cur
            break
    if sw is None:
        return None
    e, ls = an.switch_info(g.bb(sw))
    x = flow.strip(e)
    if not (x[0] == "call" and x[4] == bb):
        return None
    some_n = [m for m in g.succ[sw] if "Some" in ls.get(g.bb(m), [])]
    none_n = [m for m in g.succ[sw] if "None" in ls.get(g.bb(m), [])]
    if len(some_n) != 1 or len(none_n) != 1:
        return None
    ipd = body._ipdom
    idom, EXIT = ipd
    early, cont, region = [], [], set()

    def walk(m, conds, blocks, visited):
        if len(early) + len(cont) > 64:
            return
        for _ in range(10000):
            b2 = g.bb(m)
            if b2 == bb:
                cont.append((conds, blocks))
                return
            if b2 in visited:
                return
            visited = visited | {b2}
            blocks = blocks + [b2]
            t2 = body.blocks[b2].term
            if t2.kind == "return":
                early.append((conds, blocks))
                return
            ss2 = g.succ[m]
            if not ss2:
                return
            if t2.kind == "switch":
                if body.is_noise(t2):
                    j = idom.get(b2)
                    if j is None or j == EXIT:
                        return
                    mm = g.node_of.get((j, g.val(m)))
                    if mm is None:
                        return
                    m = mm
                    continue
                decided = len(set(body.succ[b2])) > 1 and len(ss2) == 1
                for m2 in sorted(set(ss2), key=lambda q: g.bb(q)):
                    walk(m2, conds if decided else conds + [(b2, g.bb(m2))], blocks, visited)
                return
            m = ss2[0]
    walk(some_n[0], [], [], frozenset())
    if not early or not cont:
        return None
    for c, bl in early + cont:
        region.update(bl)
    # purity: nothing in the loop body writes memory or takes a mutable borrow (besides advancing the iterator)
    for wb, wi, ws in an.mem_writes:
        if wb in region and not body.is_noise(ws):
            return None
    for rb in region:
        t2 = body.blocks[rb].term
        if t2.kind == "call" and not body.is_noise(t2) and any(str(a).startswith("&mut") for a in t2.argtys):
            return None
    vals = set(canon(path_value(ctx, body, bl) or ("unknown", "none")) for _, bl in early)
    if len(vals) != 1:
        return None
    return ({"src": t.args[0], "src_expr": an.operand_expr(t.args[0], (bb, "term")), "elem": ("field", ("variant", e, "Some"), "0"),
             "alts": [c for c, _ in early], "exit_blocks": early[0][1]}, none_n[0])


def paths(ctx, body, start_bb=0, max_paths=4096, loops=False):
    """[(conds, blocks)] for every acyclic path start -> return. conds = [(switch_bb, target_bb)] for
    every non-noise switch passed whose outcome is not already decided on that path. The walk runs over the CFG refined
    by the body's constant-carrying locals (bools and enum tags: verdicts of merged helpers, `&&` results kept in a
    variable), so a test of such a local contributes no condition and infeasible combinations are not enumerated."""
    from .sample import scenario_flags
    ipd = getattr(body, "_ipdom", None)
    if ipd is None:
        ipd = body._ipdom = _ipdom(body)
    idom, EXIT = ipd
    cache = getattr(body, "_bf_graph", None)
    if cache is None:
        flags = scenario_flags(body)
        if len(flags) > 16:
            flags = flags[:16]
        g = flow.Graph(body, flags)
        if len(g.nodes) > 60 * max(1, len(body.blocks)):
            g = flow.Graph(body, [])
        cache = body._bf_graph = g
    g = cache
    out = []
    starts = g.nodes_of_bb(start_bb)
    if start_bb != 0:
        # a region entered in the middle: flags unknown
        g = flow.Graph(body, []) if not starts else g
        starts = g.nodes_of_bb(start_bb)

    def go(n, conds, blocks, visited):
        if len(out) >= max_paths:
            return
        for _ in range(100000):
            bb = g.bb(n)
            blk = body.blocks[bb]
            if bb in visited:
                return  # loop: abandon this path (callers treat loops separately)
            visited = visited | {bb}
            blocks = blocks + [bb]
            t = blk.term
            if t.kind == "return":
                out.append((conds, blocks))
                return
            ss = g.succ[n]
            if not ss:
                return
            if loops and t.kind == "call":
                lp = _iter_loop(ctx, body, g, n)
                if lp is not None:
                    summ, none_node = lp
                    # some element takes the early exit
                    out.append((conds + [("loop", dict(summ, any=True))], blocks + summ["exit_blocks"]))
                    # no element does: continue after the loop
                    conds = conds + [("loop", dict(summ, any=False))]
                    n = none_node
                    continue
            if t.kind == "switch":
                if body.is_noise(t):
                    j = idom.get(bb)
                    if j is None or j == EXIT:
                        return
                    m = g.node_of.get((j, g.val(n)))
                    if m is None:
                        cands = g.nodes_of_bb(j)
                        if not cands:
                            return
                        m = cands[0]
                    n = m
                    continue
                decided = len(set(body.succ[bb])) > 1 and len(ss) == 1
                for m in sorted(set(ss), key=lambda x: g.bb(x)):
                    go(m, conds if decided else conds + [(bb, g.bb(m))], blocks, visited)
                return
            n = ss[0]
    for n0 in starts[:1]:
        go(n0, [], [], frozenset())
    return out


def path_value(ctx, body, blocks, local=0):
    """expression last assigned to `local` along the path"""
    an = ctx.an(body)
    val = None
    for bb in blocks:
        blk = body.blocks[bb]
        for i, s in enumerate(blk.stmts):
            if s.kind == "assign" and s.place.is_local() and s.place.local == local:
                val = an.rvalue_expr(s.rv, (bb, i), 0)
        t = blk.term
        if t.kind == "call" and t.dest is not None and t.dest.is_local() and t.dest.local == local:
            val = an._def_value(t, (bb, "term"), 0)
    return val


# ---- expression -> formula ---------------------------------------------------------------------

def canon(e, bind=None):
    """canonical string of a value expression (references, clones and string views looked through)"""
    bind = bind or {}
    x = flow.strip(e, extra=("as_str", "as_slice", "as_bytes", "iter", "into_iter", "IntoIterator::into_iter"))
    k = x[0]
    if k == "param":
        return bind.get(("param", x[2]), "param:%s" % x[2])
    if k == "env":
        return "env"
    if k == "field":
        b = flow.strip(x[1])
        if b[0] == "env":
            nm = x[2][6:] if x[2].startswith("_ref__") else x[2]
            return bind.get(("env", nm), "cap:%s" % nm)
        return "%s.%s" % (canon(x[1], bind), x[2])
    if k == "variant":
        return "%s@%s" % (canon(x[1], bind), x[2])
    if k == "agg":
        if x[1].endswith("Option::Some"):
            return "Some(%s)" % canon(x[2][0][1], bind)
        if x[1].endswith("Option::None"):
            return "None"
        return "%s{%s}" % (x[1].split("::")[-1], ",".join("%s:%s" % (n, canon(v, bind)) for n, v in x[2]))
    if k == "const":
        return repr(x[2])
    if k == "constitem":
        return x[1].split("::")[-1]
    if k == "call":
        return "%s(%s)" % ("::".join(flow.short(x[2] or x[1]).split("::")[-2:]), ",".join(canon(a, bind) for a in x[3]))
    if k == "phi":
        return "phi(%s)" % "|".join(sorted(canon(y, bind) for y in x[1]))
    if k in ("try", "await", "cast"):
        return "%s(%s)" % (k, canon(x[2] if k == "cast" else x[1], bind))
    if k == "binop":
        return "%s(%s,%s)" % (x[1], canon(x[2], bind), canon(x[3], bind))
    if k == "unop":
        return "%s(%s)" % (x[1], canon(x[2], bind))
    return flow.render(x, maxdepth=3)


def closure_formula(ctx, clo, args, parent_bind=None):
    """formula of a bool-returning closure value `clo` (aggregate expr) applied to canonical args"""
    c = flow.strip(clo)
    if c[0] != "agg" or not c[1].startswith("closure:"):
        return ("atom", ("opaque-closure", canon(clo, parent_bind)))
    key = c[1].split(":", 1)[1]
    body = ctx.prog.lib_bodies.get(key)
    if body is None:
        return ("atom", ("opaque-closure", key))
    bind = {}
    for n, v in c[2]:
        nm = n[6:] if n.startswith("_ref__") else n
        bind[("env", nm)] = canon(v, parent_bind)
    names = [body.local_name(i) for i in range(2, body.arg_count + 1)]
    for nm, a in zip(names, args):
        bind[("param", nm)] = a
    return function_formula(ctx, body, bind)


def function_formula(ctx, body, bind=None, start_bb=0, value_of=None):
    """OR over paths of (path conditions ∧ value) for a bool-valued body"""
    an = ctx.an(body)
    alts = []
    for conds, blocks in paths(ctx, body, start_bb, loops=True):
        cf = conds_formulas(ctx, body, conds, bind)
        v = path_value(ctx, body, blocks)
        vf = value_of(v) if value_of else expr_formula(ctx, v, bind)
        alts.append(f_and(*(cf + [vf])))
    return f_or(*alts)


def subst(f, old, new):
    """replace a canonical sub-term inside every atom of a formula"""
    if isinstance(f, str):
        return f.replace(old, new)
    if isinstance(f, tuple):
        return tuple(subst(x, old, new) for x in f)
    return f


def conds_formulas(ctx, body, conds, bind=None, skip=None):
    """formulas of the conditions collected by paths(): switch edges and loop summaries"""
    an = ctx.an(body)
    cf = []
    for c in conds:
        if c[0] == "loop":
            summ = c[1]
            elem = canon(summ["elem"], bind)
            alts = []
            for alt in summ["alts"]:
                fs = []
                for sb, tb in alt:
                    e, ls = an.switch_info(sb)
                    fs.append(cond_formula(ctx, e, ls.get(tb, []), bind))
                alts.append(f_and(*fs))
            inner = subst(f_or(*alts), elem, "ELEM")
            q = quantifier("any", canon(summ["src_expr"], bind), inner)
            cf.append(q if summ["any"] else f_not(q))
            continue
        sb, tb = c
        e, ls = an.switch_info(sb)
        if skip is not None and skip(e):
            continue
        cf.append(cond_formula(ctx, e, ls.get(tb, []), bind))
    return cf


def cond_formula(ctx, e, labels, bind):
    if "true" in labels or "false" in labels:
        f = expr_formula(ctx, e, bind)
        return f if "true" in labels else f_not(f)
    # enum discriminant: atom per (subject, variant); an Option test is the same atom as is_some()/is_none()
    subj = canon(e, bind)
    if labels and all(l in ("Some", "None") for l in labels):
        at = ("atom", ("some", subj))
        return f_or(*[at if l == "Some" else f_not(at) for l in labels])
    return f_or(*[("atom", ("is", subj, l)) for l in labels])


def quantifier(kind, src, inner):
    """any/all over a collection with a per-element formula; all(¬P) and any(¬P) are written with the positive body
    (¬any(P), ¬all(P)) so that equivalent spellings give the same atom"""
    if inner[0] == "not":
        other = "any" if kind == "all" else "all"
        return f_not(("atom", (other, src, show(inner[1]))))
    return ("atom", (kind, src, show(inner)))


def expr_formula(ctx, e, bind=None):
    if e is None:
        return ("atom", ("opaque", "none"))
    x = flow.strip(e)
    k = x[0]
    if k == "const" and isinstance(x[2], bool):
        return T if x[2] else F
    if k == "unop" and x[1] == "Not":
        return f_not(expr_formula(ctx, x[2], bind))
    if k == "phi":
        return ("atom", ("opaque", canon(x, bind)))
    if k == "binop" and x[1] in ("Eq", "Ne", "Lt", "Le", "Gt", "Ge"):
        a, b = canon(x[2], bind), canon(x[3], bind)
        op = x[1]
        if op == "Ne":
            return f_not(("atom", ("Eq",) + tuple(sorted((a, b)))))
        if op == "Eq":
            return ("atom", ("Eq",) + tuple(sorted((a, b))))
        # normalise to Lt / Le with ordered operands: a > b == b < a ; a >= b == !(a < b)
        if op == "Gt":
            return ("atom", ("Lt", b, a))
        if op == "Ge":
            return f_not(("atom", ("Lt", a, b)))
        if op == "Le":
            return f_not(("atom", ("Lt", b, a)))
        return ("atom", ("Lt", a, b))
    if k == "call":
        nm = flow.short(x[2] or x[1])
        d = flow.short(x[1])
        last = d.split("::")[-1]
        if last in ("eq", "ne") and len(x[3]) == 2:
            a, b = canon(x[3][0], bind), canon(x[3][1], bind)
            at = ("atom", ("Eq",) + tuple(sorted((a, b))))
            return at if last == "eq" else f_not(at)
        if d.endswith("Option::is_some"):
            return ("atom", ("some", canon(x[3][0], bind)))
        if d.endswith("Option::is_none"):
            return f_not(("atom", ("some", canon(x[3][0], bind))))
        if d.endswith("Option::is_some_and"):
            subj = canon(x[3][0], bind)
            return f_and(("atom", ("some", subj)), closure_formula(ctx, x[3][1], ["%s@Some.0" % subj], bind))
        if d.endswith("Option::is_none_or"):
            subj = canon(x[3][0], bind)
            return f_or(f_not(("atom", ("some", subj))), closure_formula(ctx, x[3][1], ["%s@Some.0" % subj], bind))
        if d.endswith(("Iterator::any", "Iterator::all")):
            src = canon(x[3][0], bind)
            inner = closure_formula(ctx, x[3][1], ["ELEM"], bind)
            return quantifier(last, src, inner)
        if d.endswith("Regex::is_match"):
            return ("atom", ("match", canon(x[3][0], bind), canon(x[3][1], bind)))
        if d.endswith(("Vec::<T, A>::is_empty", "Vec::is_empty", "is_empty")):
            return ("atom", ("empty", canon(x[3][0], bind)))
        if d.endswith(("contains",)):
            full = (x[2] or x[1])
            if "str" not in flow.short(full).split("::")[0:2] and not flow.short(full).startswith(("str::", "String::")) and "Range" not in full:
                # membership in a slice / Vec / set is the same test as `.iter().any(|e| e == x)`
                a, b = "ELEM", canon(x[3][1], bind)
                return ("atom", ("any", canon(x[3][0], bind), show(("atom", ("Eq",) + tuple(sorted((a, b)))))))
            return ("atom", ("contains", canon(x[3][0], bind), canon(x[3][1], bind)))
    return ("atom", ("opaque", canon(x, bind)))

"""C17 — Shutdown drains in-flight connections and serves no new ones (DESIGN §5 C17)."""
from ..lib import *  # noqa: F401,F403
from .. import flow
from .listener_common import Handle

EXPLANATION = ("shape rules on Listener::listen: the accept loop's select! has a branch on the stop token whose handler "
               "leaves the loop and that branch has priority over accept (biased select with the token first, or an "
               "is_cancelled() test before polling accept — detected from the macro expansion: an unbiased select! calls "
               "tokio::macros::support::thread_rng_n); every path from the loop exit to Ok passes tracker.close() then "
               "tracker.wait().await on the tracker handle() spawns on; connection futures are created only inside "
               "tasks spawned on that tracker; no abort; the token given to listen() is the one the ctrl-c task cancels")
DECIDED = [
    "accept loop: select!{accept, stop.cancelled()} — the stop branch leaves the loop; no other exit than accept errors",
    "an already-cancelled token wins over a ready accept (biased, stop first)",
    "after the loop: self.tracker.close(); self.tracker.wait().await; then Ok — on the tracker that handle() spawns on",
    "Connection::listen futures exist only inside closures passed to that tracker's spawn",
    "the stop token is not captured by connection tasks; no abort/shutdown_timeout anywhere in the listener",
    "passage::start passes listen() a clone of the token cancelled by the ctrl_c task",
]
UNDECIDED = ["OS accept-queue behaviour after the listener socket is dropped"]
TRUSTED = ["tokio_util::task::TaskTracker close()/wait() semantics", "tokio::select! expansion (biased polls branches in order)"]


def check(ctx):
    R = "C17/stop-branch"
    H = Handle(ctx, R)
    if not H.ok:
        return
    body, an, g = H.listen, H.lan, H.lg
    sels = [a for a in awaits(ctx, body) if a[1] == "select"]
    ctx.exact(R, "select! in Listener::listen", len(sels), 1, body.loc)
    if len(sels) != 1:
        return
    sbb, _, _, sel = sels[0]
    futs = [flow.strip(f) for f in sel[2]]
    names = [flow.short(f[2] or f[1]) if f[0] == "call" else render(f, maxdepth=1) for f in futs]
    acc = [i for i, n in enumerate(names) if n.endswith("TcpListener::accept")]
    stp = [i for i, n in enumerate(names) if n.endswith("CancellationToken::cancelled")]
    ctx.check(len(acc) == 1 and len(stp) == 1 and len(futs) == 2, R, "C17/stop-branch/branches", site(body, sbb),
              reason="accept-loop select! races %s; expected exactly accept() and stop.cancelled()" % names,
              detail="select!{%s}" % ", ".join(n.split("::")[-1] for n in names))
    if not (len(acc) == 1 and len(stp) == 1):
        return
    tok = futs[stp[0]][3][0]
    ctx.check(param_name(tok) == "stop", R, "C17/stop-branch/token-is-parameter", site(body, sbb),
              reason="the cancellation future is on %s, not the `stop` parameter" % render(tok, maxdepth=3), detail="stop.cancelled() on the `stop` parameter")
    # the out switch: arm k -> handler
    out_sw = None
    for b in body.blocks:
        if b.cleanup or b.term.kind != "switch":
            continue
        e, ls = an.switch_info(b.idx)
        x = flow.strip(e)
        if x[0] == "await" and x[1][0] == "select" and x[1][1] == sel[1]:
            out_sw = (b.idx, ls)
    ctx.check(out_sw is not None, R, "C17/stop-branch/out-switch", site(body, sbb),
              reason="unrecognised-implementation: select! output switch not found", detail="select! output matched")
    closes = calls(body, "TaskTracker::close")
    waits = calls(body, "TaskTracker::wait")
    hcalls = calls(body, "Listener::<Stat, Disc, Filt, Stra, Auth, Loca>::handle") or calls(body, "Listener::handle")
    ctx.exact(R, "handle() call in the accept loop", len(hcalls), 1, body.loc)
    if out_sw and closes and hcalls:
        # two scenarios (pv/sample.py): every select! outcome is the stop branch / every outcome is the accept branch.
        # Variables that carry the outcome on (`let next = select!{.. => None, .. => Some(x)}`) are tracked as variant tags.
        from ..sample import Scenario

        def out(label):
            def sw(bb, e, ls):
                return (label,) if bb == out_sw[0] else None
            return sw
        stop_s = Scenario(ctx, body, switches=out("_%d" % stp[0]), opt=False)
        acc_s = Scenario(ctx, body, switches=out("_%d" % acc[0]), opt=False)
        hb, cb_ = hcalls[0][0], closes[0][0]
        p = stop_s.g.path(stop_s.g.nodes_of_bb(out_sw[0]), [cb_], cut_nodes=[hb, sbb])
        ctx.check(p is not None, R, "C17/stop-branch/leaves-loop", site(body, out_sw[0]),
                  reason="the stop branch does not leave the accept loop towards tracker.close()", detail="stop branch -> tracker.close()")
        back = stop_s.g.path(stop_s.g.nodes_of_bb(out_sw[0]), [hb], cut_nodes=[])
        ctx.check(back is None, R, "C17/stop-branch/no-accept-after-stop", site(body, out_sw[0]),
                  reason="after the stop branch the loop can still handle a connection", detail="no handle() reachable after the stop branch")
        # handle() only on the accept arm
        ctx.check(not stop_s.reachable(hb) and acc_s.reachable(hb), R, "C17/stop-branch/handle-on-accept-arm", site(body, hb),
                  reason="handle() reachable without an accepted connection (or not reachable with one)", detail="handle() only on the accept arm")
        # loop exits: close() reachable only via stop arm (accept errors return Err)
        ctx.check(not acc_s.reachable(cb_), R, "C17/stop-branch/only-exit", site(body, cb_),
                  reason="the drain phase is reachable without a stop request", detail="close() only after the stop branch")

    # ---- C17/stop-priority
    RP = "C17/stop-priority"
    poll_closures = [c for c in ctx.prog.children(body.key) if c.kind == "Closure" and c is not None]
    sel_closure = None
    for b in body.blocks:
        for s in b.stmts:
            if s.kind == "assign" and s.rv.k == "agg" and s.rv.j.get("ak") == "closure" and b.idx <= sbb and \
                    any(n.endswith("futures") for n in s.rv.j["fields"]):
                sel_closure = ctx.prog.lib_bodies.get(s.rv.j["closure"])
    unbiased = None
    order_ok = stp[0] < acc[0]
    if sel_closure is not None:
        unbiased = bool(calls(sel_closure, "thread_rng_n", noise=True))
    pre_test = False
    for bb, t in calls(body, "CancellationToken::is_cancelled"):
        if always_before(g, bb, sbb):
            pre_test = True
    ctx.check(sel_closure is not None, RP, "C17/stop-priority/poll-closure", site(body, sbb),
              reason="unrecognised-implementation: select! poll closure not found", detail="select! poll closure found")
    ok = (unbiased is False and order_ok) or pre_test
    ctx.check(ok, RP, "C17/stop-priority/accept-loop", site(body, sbb),
              reason=("the accept-loop select! is %s with branch order [%s]: when the stop token is already cancelled and a "
                      "connection is ready, accept() may be polled first and that connection is served after shutdown was requested; "
                      "expected `biased;` with the stop branch first (or an is_cancelled() test before accepting)")
                     % ("unbiased (random start branch)" if unbiased else "biased", ", ".join(n.split("::")[-1] for n in names)),
              detail="stop branch has priority (biased=%s, stop first=%s, pre-test=%s)" % (unbiased is False, order_ok, pre_test))

    # ---- C17/drain
    RD = "C17/drain"
    ctx.exact(RD, "tracker.close() in listen", len(closes), 1, body.loc)
    ctx.exact(RD, "tracker.wait() in listen", len(waits), 1, body.loc)
    if len(closes) == 1 and len(waits) == 1:
        cb, ct = closes[0]
        wb, wt = waits[0]
        ctx.check(self_field(arg(an, cb, ct, 0)) == "tracker" and self_field(arg(an, wb, wt, 0)) == "tracker", RD,
                  "C17/drain/same-tracker", site(body, cb), reason="close()/wait() are not on self.tracker", detail="close()/wait() on self.tracker")
        ctx.check(always_before(g, cb, wb), RD, "C17/drain/close-before-wait", site(body, wb),
                  reason="wait() can run before close()", detail="close() before wait()")
        # wait() is awaited
        wa = [a for a in awaits(ctx, body) if a[1] == "ext" and a[2].endswith("TaskTracker::wait")]
        ctx.check(len(wa) == 1, RD, "C17/drain/wait-awaited", site(body, wb),
                  reason="tracker.wait() is not awaited", detail="tracker.wait().await")
        # every Ok return passes the wait await
        okret = []
        for b in body.blocks:
            if b.cleanup:
                continue
            for s in b.stmts:
                if s.kind == "assign" and s.place.is_local() and s.place.local == 0 and s.rv.k == "agg" and s.rv.j.get("variant") == "Ok":
                    okret.append(b.idx)
        ctx.floor(RD, "Ok(()) result of listen", len(okret), 1, body.loc)
        if wa:
            for ob in okret:
                okk, p = g.must_pass(ob, cut_nodes=[wa[0][0]])
                ctx.check(okk, RD, "C17/drain/ok-only-after-drain", site(body, ob),
                          reason="listen() can return Ok without waiting for in-flight connections", detail="Ok only after wait().await")
        if H.spawn is not None:
            sb, stt = H.spawn
            ctx.check(dname(stt).endswith("TaskTracker::spawn") and self_field(arg(H.han, sb, stt, 0)) == "tracker", RD,
                      "C17/drain/spawned-on-same-tracker", site(H.handle, sb),
                      reason="connection tasks are spawned with %s on %s, not on self.tracker" % (dname(stt), render(arg(H.han, sb, stt, 0), maxdepth=3)),
                      detail="handle() spawns on self.tracker")

    # ---- C17/tracked-only
    RT = "C17/tracked-only"
    ctx.exact(RT, "spawn site in handle()", len(H.spawns), 1, H.handle.loc)
    sites = []
    for k, b in ctx.prog.lib_bodies.items():
        if not k.startswith(("passage_protocol::", "passage::")):
            continue
        for bb, t in calls(b, "Connection::<S, Stat, Disc, Filt, Stra, Auth, Loca>::listen") + calls(b, "connection::Connection::listen"):
            sites.append(k)
    sites = sorted(set(sites))
    ctx.check(H.task is not None and sites == [H.task.key], RT, "C17/tracked-only/listen-futures", H.handle.loc,
              reason="Connection::listen futures are created in %s; expected only inside the task spawned on the tracker" % sites,
              detail="Connection::listen only inside the tracked task")
    others = []
    for k, b in ctx.prog.lib_bodies.items():
        if k.startswith("passage_protocol::listener::"):
            for bb, t in calls(b, ("tokio::spawn", "task::spawn", "spawn_blocking", "spawn_local")):
                if not dname(t).endswith("TaskTracker::spawn"):
                    others.append((k, dname(t)))
    ctx.check(not others, RT, "C17/tracked-only/no-untracked-spawn", H.handle.loc,
              reason="untracked spawns in the listener: %s" % others, detail="no tokio::spawn in the listener")

    # ---- C17/no-abort
    RA = "C17/no-abort"
    bad = []
    for k, b in ctx.prog.lib_bodies.items():
        if k.startswith("passage_protocol::listener::"):
            for bb, t in b.calls():
                n = cname(t)
                if n.split("::")[-1] in ("abort", "abort_all", "shutdown_timeout", "shutdown_background", "abort_handle"):
                    bad.append((k, n))
    ctx.check(not bad, RA, "C17/no-abort/listener", H.handle.loc, reason="in-flight connections can be aborted: %s" % bad,
              detail="no abort/shutdown_timeout in the listener")
    if H.task is not None:
        caps = {n: ctx.prog.lib_bodies[H.task.key].locals[0] for n in []}
        tys = []
        for d in H.task.debug:
            if "place" in d and d["place"]["p"]:
                p = d["place"]["p"][-1]
                if isinstance(p, dict) and "ty" in p:
                    tys.append((d["name"], p["ty"]))
        tok = [x for x in tys if "CancellationToken" in x[1]]
        ctx.check(not tok and bool(tys), RA, "C17/no-abort/task-does-not-see-stop", H.task.loc,
                  reason="connection tasks capture the stop token %s: shutdown would cut them short" % tok,
                  detail="task captures %s" % [n for n, _ in tys])

    # ---- C17/signal-wiring
    RS = "C17/signal-wiring"
    sb = ctx.body(r"^passage::start::\{closure#0\}$", rule=RS)
    if sb is not None:
        san = ctx.an(sb)
        news = calls(sb, "CancellationToken::new")
        ctx.exact(RS, "CancellationToken::new in start", len(news), 1, sb.loc)
        ls = calls(sb, "Listener::<Stat, Disc, Filt, Stra, Auth, Loca>::listen") or calls(sb, "listener::Listener::listen")
        if len(news) == 1 and len(ls) == 1:
            nb = news[0][0]
            a = arg(san, ls[0][0], ls[0][1], 2)
            ctx.check(bool([c for c in calls_in(a, "CancellationToken::new") if c[4] == nb]), RS, "C17/signal-wiring/listen-gets-token", site(sb, ls[0][0]),
                      reason="listen() is given %s, not (a clone of) the stop token" % render(a, maxdepth=3), detail="listen(.., stop_token.clone())")
            # the signal task
            sp = calls(sb, ("tokio::spawn", "task::spawn"))
            ok = False
            for bb, t in sp:
                fut = flow.strip(arg(san, bb, t, 0))
                if fut[0] == "agg" and fut[1].startswith("coroutine:"):
                    caps = dict(fut[2])
                    tokc = [v for v in caps.values() if [c for c in calls_in(v, "CancellationToken::new") if c[4] == nb]]
                    tb = ctx.prog.lib_bodies.get(fut[1].split(":", 1)[1])
                    if tokc and tb is not None:
                        cc = calls(tb, "CancellationToken::cancel")
                        cz = calls(tb, "tokio::signal::ctrl_c") or calls(tb, "signal::ctrl_c")
                        ok = bool(cc) and bool(cz)
            ctx.check(ok, RS, "C17/signal-wiring/ctrl-c-cancels-token", sb.loc,
                      reason="no spawned task that awaits ctrl_c and cancels (a clone of) the stop token", detail="ctrl_c task cancels a clone of the same token")

"""C07 — Waiting players are kept alive; silent ones are timed out (DESIGN §5 C07). Structural part."""
from ..lib import *  # noqa: F401,F403
from .. import flow, events
from .listen_common import Listen, RECV, KEEP

EXPLANATION = ("structural necessary conditions of the keep-alive behaviour: the per-connection interval is "
               "tokio::time::interval(from_secs(KEEP_ALIVE_INTERVAL ∈ [1,16])) with MissedTickBehavior::Skip; in the "
               "tick arm of receive_packet (keep_alive = true) a Keep Alive is sent only when none is outstanding and "
               "records the same id, otherwise localized Disconnect + Err(MissedKeepAlive); the echo clears the "
               "outstanding id only on equality; both keep-alive receive sites accept the same packets and route "
               "KeepAlive to handle_keep_alive with the decoded id; each routing stage is awaited only as a select! "
               "branch raced with keep_alive(), which cannot return Ok, and each adapter future is created once")
DECIDED = [
    "period: interval(Duration::from_secs(KEEP_ALIVE_INTERVAL)), constant in [1,16], MissedTickBehavior::Skip, created in Connection::new (per connection)",
    "one outstanding: send<KeepAlive{id}> is dominated by keep_alive_id.is_some() == false and stores Some(id) with the id sent; is_some() == true leads to localize(disconnect_timeout) -> Disconnect -> Err(MissedKeepAlive); no other write of Some to keep_alive_id",
    "echo: handle_keep_alive writes only None, only when keep_alive_id == Some(id) for the id parameter; both keep-alive receive sites pass the decoded KeepAlive id and accept the same packet set",
    "raced: discover/filter/select are each awaited only inside a select! whose other branch is self.keep_alive(); keep_alive() has no Ok-producing return; adapter futures are not created inside loops",
    "the tick branch is polled before the read branch (biased select!) so a flood of client packets cannot starve the timeout",
]
UNDECIDED = ["the actual gaps between Keep Alives under MissedTickBehavior::Skip (real timing)", "that a prompt client is never dropped; behaviour for delayed/duplicate echoes in real time",
             "C08's cancellation findings also affect this property at run time"]
TRUSTED = ["tokio::time::Interval", "tokio::select! expansion"]


def re_fn(k):
    import re
    return [x for x in re.sub(r"::\{closure#\d+\}", "", k).split("::") if not x.startswith("{")][-1]


def check(ctx):
    prog = ctx.prog
    # ---- C07/period
    R = "C07/period"
    nb = ctx.body(r"^passage_protocol::connection::\{impl#\d+\}::new$", rule=R)
    if nb is not None:
        an = ctx.an(nb)
        r = flow.strip(return_expr(an))
        iv = dict(r[2]).get("keep_alive_interval") if r[0] == "agg" else None
        ok = False
        why = "keep_alive_interval is %s" % (render(iv, maxdepth=5) if iv else "?")
        val = None
        skip = False
        if iv is not None:
            muts = find_all(iv, lambda x: x[0] == "mut")
            x = flow.strip(iv)
            if x[0] == "call" and flow.short(x[1]).endswith("tokio::time::interval"):
                d = flow.strip(x[3][0])
                if d[0] == "call" and flow.short(d[1]).endswith("Duration::from_secs"):
                    c = flow.strip(d[3][0])
                    if c[0] == "constitem" and c[1].endswith("KEEP_ALIVE_INTERVAL"):
                        val = c[2]
                    elif c[0] == "const":
                        val = c[2]
            skip = any(any(m.endswith("set_missed_tick_behavior") for m in mm[2]) for mm in muts)
            ok = isinstance(val, int) and 1 <= val <= 16
            if not ok:
                why = "keep-alive period is %r seconds (from %s); must be a constant in [1, 16]" % (val, render(x, maxdepth=4))
        ctx.check(ok, R, "C07/period/constant", nb.loc, reason=why, detail="interval(from_secs(KEEP_ALIVE_INTERVAL = %s))" % val)
        sm = calls(nb, "Interval::set_missed_tick_behavior")
        beh = None
        if len(sm) == 1:
            b = flow.strip(arg(an, sm[0][0], sm[0][1], 1))
            beh = b[1].split("::")[-1] if b[0] == "agg" else None
        ctx.check(skip and beh == "Skip", R, "C07/period/missed-tick-skip", nb.loc,
                  reason="missed-tick behaviour is %s; Burst would send several Keep Alives back to back" % beh, detail="MissedTickBehavior::Skip")
    # per connection: no static/shared interval
    ivs = []
    for k, b in prog.lib_bodies.items():
        if k.startswith("passage_protocol::"):
            for bb, t in calls(b, ("tokio::time::interval", "tokio::time::interval_at")):
                ivs.append(k)
    ctx.check(ivs == ["passage_protocol::connection::{impl#0}::new"], R, "C07/period/per-connection", "",
              reason="intervals are created in %s; expected only Connection::new" % ivs, detail="interval created only in Connection::new")

    # the schedule of the interval is never perturbed: the only operation on it after creation is tick() in receive_packet
    touch = []
    for k, b in prog.lib_bodies.items():
        if not k.startswith("passage_protocol::connection::"):
            continue
        a2 = None
        for bb, t in b.calls():
            if b.is_noise(t) or not t.args:
                continue
            a2 = a2 or ctx.an(b)
            for i in range(len(t.args)):
                e = a2.operand_expr(t.args[i], (bb, "term"))
                while e[0] in ("ref", "deref", "mut", "cell"):
                    e = e[3] if e[0] == "cell" else e[1]
                if e[0] == "field" and e[2] == "keep_alive_interval" and self_field(e) == "keep_alive_interval":
                    touch.append((re_fn(k), (cname(t) or dname(t)).split("::")[-1]))
        for bb, i, s in ctx.an(b).mem_writes:
            if s.place.fields()[-1:] == ["keep_alive_interval"] and not b.is_noise(s):
                touch.append((re_fn(k), "assign"))
    ctx.check(sorted(set(touch)) == [("receive_packet", "tick")], R, "C07/period/interval-untouched", "",
              reason="the keep-alive interval is also manipulated by %s: resetting or re-arming it moves the next Keep Alive away from the fixed %s-second grid, so gaps can exceed the period"
                     % (sorted(set(x for x in touch if x != ("receive_packet", "tick"))), "KEEP_ALIVE_INTERVAL"),
              detail="interval only ever tick()ed, in receive_packet")

    # ---- C07/one-outstanding
    RO = "C07/one-outstanding"
    rb = ctx.body(RECV, rule=RO)
    if rb is not None:
        an = ctx.an(rb)
        from .listen_common import KeepAliveMode
        km = getattr(ctx, "_keepalive_mode", None) or KeepAliveMode(ctx)
        ctx._keepalive_mode = km
        gt = km.on() or ctx.graph_with(rb, [ctx.captured_flag(rb, "keep_alive")], pinned={ctx.captured_flag(rb, "keep_alive"): True})
        ev = events.extract(ctx, rb)
        sends = [(bb, e) for bb, es in ev.items() for _, e, _ in es if e == "send:configuration::clientbound::KeepAlive"]
        ctx.exact(RO, "KeepAlive send in receive_packet", len(sends), 1, rb.loc)
        guard = None
        for b in rb.blocks:
            if b.cleanup or b.term.kind != "switch" or rb.is_noise(b.term):
                continue
            e, ls = an.switch_info(b.idx, opt=True)
            if self_field(e) == "keep_alive_id" and any("Some" in l for l in ls.values()):
                out_lab = "Some"
                guard = (b.idx, ls, out_lab)
        ctx.check(guard is not None, RO, "C07/one-outstanding/guard", rb.loc,
                  reason="anchor-missing: no test of self.keep_alive_id.is_some() in the tick arm", detail="tick arm tests keep_alive_id.is_some()")
        if guard and len(sends) == 1:
            gb, ls, out_lab = guard
            free_edges = [(gb, tb) for tb, l in ls.items() if out_lab not in l]
            busy_edges = [(gb, tb) for tb, l in ls.items() if out_lab in l]
            sbb = sends[0][0]
            okk, p = gt.must_pass(sbb, cut_edges=free_edges)
            ctx.check(okk, RO, "C07/one-outstanding/send-only-when-none-outstanding", site(rb, sbb),
                      reason="a Keep Alive can be sent while the previous one is unanswered", detail="send<KeepAlive> dominated by keep_alive_id.is_some() == false")
            # stores Some(id) with the same id
            stores = [(bb, i, s) for bb, i, s in an.mem_writes if s.place.fields()[-1:] == ["keep_alive_id"] and not rb.is_noise(s)]
            ctx.exact(RO, "writes to keep_alive_id in receive_packet", len(stores), 1, rb.loc)
            pk = None
            for bb, t in calls(rb, "Connection::send_packet"):
                if bb == sbb:
                    pk = flow.strip(arg(an, bb, t, 1))
            if len(stores) == 1 and pk is not None and pk[0] == "agg":
                wb, wi, ws = stores[0]
                v = flow.strip(an.rvalue_expr(ws.rv, (wb, wi), 0))
                sid = flow.strip(dict(pk[2]).get("id", ("unknown", "")))
                same = v[0] == "agg" and v[1].endswith("Option::Some") and flow.strip(v[2][0][1]) == sid and sid[0] == "call" \
                    and flow.short(sid[1]).endswith("crypto::generate_keep_alive")
                ctx.check(same, RO, "C07/one-outstanding/records-sent-id", site(rb, wb),
                          reason="outstanding id := %s but the packet carries %s" % (render(v, maxdepth=3), render(sid, maxdepth=3)),
                          detail="keep_alive_id = Some(id) with id = generate_keep_alive() = KeepAlive.id")
                ctx.check(always_before(gt, wb, sbb) or always_before(gt, sbb, wb), RO, "C07/one-outstanding/store-and-send-paired", site(rb, wb),
                          reason="the id store and the send are not on the same path", detail="store and send on the same path")
                okk, p = gt.must_pass(wb, cut_edges=free_edges)
                ctx.check(okk, RO, "C07/one-outstanding/store-only-when-none-outstanding", site(rb, wb),
                          reason="the outstanding id can be overwritten while one is pending", detail="store dominated by is_some() == false")
            # busy edge: localize(disconnect_timeout) -> Disconnect -> Err(MissedKeepAlive), no KeepAlive send
            starts = []
            for (_, tb) in busy_edges:
                starts += gt.nodes_of_bb(tb)
            reach = set(gt.bb(n) for n in gt.reachable(starts)) if starts else set()
            evs = [e for bb, es in ev.items() if bb in reach for _, e, _ in es]
            ctx.check("ret:err:MissedKeepAlive" in evs and "send:configuration::clientbound::Disconnect" in evs
                      and "send:configuration::clientbound::KeepAlive" not in evs and "ret:ok" not in evs, RO,
                      "C07/one-outstanding/unanswered-times-out", site(rb, gb),
                      reason="with a Keep Alive outstanding at the next tick the handler does %s; expected Disconnect and Err(MissedKeepAlive) only" % sorted(set(evs)),
                      detail="outstanding at tick: Disconnect + Err(MissedKeepAlive)")
            for bb, t in calls(rb, "LocalizationAdapter::localize"):
                k = flow.strip(arg(an, bb, t, 2))
                ctx.check(k == ("const", "&str", "disconnect_timeout"), RO, "C07/one-outstanding/timeout-message", site(rb, bb),
                          reason="timeout message key is %s" % render(k), detail="key = disconnect_timeout")
        # tick branch has priority (biased select, tick first)
        sels = [a for a in awaits(ctx, rb) if a[1] == "select"]
        ctx.exact(RO, "select! in receive_packet", len(sels), 1, rb.loc)
        if len(sels) == 1:
            futs = [flow.strip(f) for f in sels[0][3][2]]
            nm = [render(f, maxdepth=1) for f in futs]
            tick_first = futs and futs[0][0] == "call" and flow.short(futs[0][1]).endswith("Interval::tick") \
                and self_field(futs[0][3][0]) == "keep_alive_interval"
            clo = None
            for b in rb.blocks:
                for s in b.stmts:
                    if s.kind == "assign" and s.rv.k == "agg" and s.rv.j.get("ak") == "closure" and any(n.endswith("futures") for n in s.rv.j["fields"]):
                        clo = prog.lib_bodies.get(s.rv.j["closure"])
            biased = clo is not None and not calls(clo, "thread_rng_n", noise=True)
            ctx.check(tick_first and biased, RO, "C07/one-outstanding/tick-has-priority", site(rb, sels[0][0]),
                      reason="the keep-alive tick is not polled first (biased=%s, branches=%s): continuous client traffic could starve the timeout" % (biased, nm),
                      detail="biased select!, tick branch first")
    # no other Some-writes to keep_alive_id anywhere
    somes = []
    for k, b in prog.lib_bodies.items():
        if not k.startswith("passage_protocol::connection::"):
            continue
        a2 = ctx.an(b)
        for bb, i, s in a2.mem_writes:
            if s.place.fields()[-1:] == ["keep_alive_id"] and not b.is_noise(s):
                v = flow.strip(a2.rvalue_expr(s.rv, (bb, i), 0))
                somes.append((k.split("::")[-3] if "closure" in k else k.split("::")[-1], v[1].split("::")[-1] if v[0] == "agg" else render(v, maxdepth=1)))
    ctx.check(sorted(somes) == [("handle_keep_alive", "None"), ("receive_packet", "Some")], RO, "C07/one-outstanding/writers", "",
              reason="keep_alive_id is written at %s; expected Some in receive_packet's tick arm and None in handle_keep_alive only" % sorted(somes),
              detail="keep_alive_id writers: %s" % sorted(somes))

    # ---- C07/echo
    RE = "C07/echo"
    hb = ctx.body(r"^passage_protocol::connection::\{impl#\d+\}::handle_keep_alive$", rule=RE)
    if hb is not None:
        han = ctx.an(hb)
        hg = ctx.graph(hb)
        ws = [(bb, i, s) for bb, i, s in han.mem_writes if not hb.is_noise(s)]
        ctx.exact(RE, "writes in handle_keep_alive", len(ws), 1, hb.loc)
        eqs = []
        for b in hb.blocks:
            if b.cleanup or b.term.kind != "switch" or hb.is_noise(b.term):
                continue
            e, ls = han.switch_info(b.idx)
            if e[0] == "call" and flow.short(e[1]).endswith(("PartialEq::eq", "PartialEq::ne")):
                a, c = flow.strip(e[3][0]), flow.strip(e[3][1])
                pair = None
                for x, y in ((a, c), (c, a)):
                    if self_field(x) == "keep_alive_id" and y[0] == "agg" and y[1].endswith("Option::Some") and param_name(y[2][0][1]) == "id":
                        pair = True
                if pair:
                    lab = "true" if flow.short(e[1]).endswith("eq") else "false"
                    eqs.append((b.idx, [(b.idx, tb) for tb, l in ls.items() if lab in l]))
        ctx.exact(RE, "`self.keep_alive_id == Some(id)` test", len(eqs), 1, hb.loc)
        if len(ws) == 1 and len(eqs) == 1:
            wb, wi, s = ws[0]
            v = flow.strip(han.rvalue_expr(s.rv, (wb, wi), 0))
            ctx.check(s.place.fields()[-1:] == ["keep_alive_id"] and v[0] == "agg" and v[1].endswith("Option::None"), RE,
                      "C07/echo/clears", site(hb, wb), reason="handle_keep_alive writes %s := %s" % (s.place.text(), render(v, maxdepth=2)),
                      detail="keep_alive_id = None")
            okk, p = hg.must_pass(wb, cut_edges=eqs[0][1])
            ctx.check(okk, RE, "C07/echo/only-on-equal-id", site(hb, wb),
                      reason="the outstanding id is cleared without the echoed id being equal to it (a wrong or unsolicited id would count as an answer)",
                      detail="cleared only when keep_alive_id == Some(id)")
    # both keep-alive receive sites
    L = Listen(ctx, RE)
    kb = ctx.body(KEEP, rule=RE)
    sets = []
    if L.ok and kb is not None:
        from .c06 import recv_sites
        for body in (L.body, kb):
            an = ctx.an(body)
            for bb, ka, arms, otherwise, sb in recv_sites(ctx, body):
                if ka is not True or arms is None:
                    continue
                sets.append((body.key.split("::")[-3], frozenset(T for T, _ in arms.values())))
                # KeepAlive arm calls handle_keep_alive(decoded id)
                for v, (T, abb) in arms.items():
                    if T and T.endswith("serverbound::KeepAlivePacket"):
                        hk = [(b2, t2) for b2, t2 in calls(body, "Connection::handle_keep_alive")
                              if always_before(ctx.graph(body), abb, b2)]
                        okk = False
                        for b2, t2 in hk:
                            a = arg(an, b2, t2, 1)
                            r, fs = field_path(a)
                            r = flow.strip(r)
                            if fs == ["id"] and r[0] == "try":
                                c = flow.strip(flow.strip(r[1])[1]) if flow.strip(r[1])[0] == "await" else None
                                if c is not None and c[4] == abb:
                                    okk = True
                        ctx.check(okk, RE, "C07/echo/routes-decoded-id@" + body.key.split("::")[-3], site(body, abb),
                                  reason="the KeepAlive arm does not call handle_keep_alive with the decoded packet's id",
                                  detail="KeepAlive => handle_keep_alive(packet.id)")
        ctx.check(len(sets) == 2 and sets[0][1] == sets[1][1], RE, "C07/echo/sibling-sites-agree", "",
                  reason="the two keep-alive receive sites accept different packets: %s" % [(n, sorted(x.split('::')[-1] for x in s)) for n, s in sets],
                  detail="listen's configuration loop and keep_alive() accept the same %d packets" % (len(sets[0][1]) if sets else 0))

    # ---- C07/raced
    RR = "C07/raced"
    if L.ok:
        body, an, g = L.body, L.an, L.g
        ctx.check(L.keep_alive_never_ok(), RR, "C07/raced/never-ok", kb.loc if kb else "",
                  reason="keep_alive() has an Ok-producing return: its select! branch could end a routing stage without a result",
                  detail="keep_alive() never returns Ok")
        sels = [a for a in awaits(ctx, body) if a[1] == "select"]
        ctx.exact(RR, "select! sites in listen", len(sels), 3, body.loc)
        staged = {}
        for sbb, _, _, sel in sels:
            futs = [flow.strip(f) for f in sel[2]]
            names = [flow.short(f[1]) if f[0] == "call" else "?" for f in futs]
            ka = [n for n in names if n.endswith("Connection::keep_alive")]
            ad = [n for n in names if n.endswith(("DiscoveryAdapter::discover", "FilterAdapter::filter", "StrategyAdapter::select"))]
            if len(futs) == 2 and len(ka) == 1 and len(ad) == 1:
                staged[ad[0].split("::")[-1]] = sbb
        for stage, suf in (("discover", "DiscoveryAdapter::discover"), ("filter", "FilterAdapter::filter"), ("select", "StrategyAdapter::select")):
            cs = L.call(suf)
            ok = stage in staged and len(cs) == 1
            ctx.check(ok, RR, "C07/raced/" + stage, site(body, cs[0][0]) if cs else body.loc,
                      reason="%s() is not awaited as one branch of a select! whose other branch is self.keep_alive()" % stage,
                      detail="select!{keep_alive(), %s(..)}" % stage)
            # not awaited anywhere else
            direct = [a for a in awaits(ctx, body) if a[1] in ("ext", "ws") and a[2].endswith(suf)]
            ctx.check(not direct, RR, "C07/raced/%s-not-awaited-bare" % stage, body.loc,
                      reason="%s() is also awaited outside the select!: no keep-alives are sent while it runs" % stage,
                      detail="%s only awaited inside the select!" % stage)
            # created once: the call is not inside a loop (SCC) of the CFG
            if cs:
                bb = cs[0][0]
                loop = bb in set(g.bb(n) for n in g.reachable([m for n in g.nodes_of_bb(bb) for m in g.succ[n]]))
                ctx.check(not loop, RR, "C07/raced/%s-created-once" % stage, site(body, bb),
                          reason="the %s() future is created inside a loop: the backend call would restart on every keep-alive" % stage,
                          detail="%s future created once" % stage)

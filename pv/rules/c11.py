"""C11 — The session server hash equals Minecraft's signed SHA-1 hex digest (DESIGN §5 C11).

Decided as API-composition conformance: which library calls, in which order, on which operands."""
from ..lib import *  # noqa: F401,F403
from .. import flow

EXPLANATION = ("API-chain rule on passage_adapters::authentication::minecraft_hash (MIR expression tree of the "
               "return value + dominance order of the three Digest::update calls) and provenance of the hash "
               "into the hasJoined request and of server_id from the configuration")
DECIDED = [
    "one sha1::Sha1 hasher; update called exactly three times, in order server_id, shared_secret, encoded_public",
    "result = BigInt::from_signed_bytes_be(finalize(hasher)).to_str_radix(16), returned unchanged",
    "MojangAdapter::authenticate hashes (self.server_id, shared_secret param, encoded_public param) and that hash is what reaches the request",
    "self.server_id is set from config.adapters.authentication.mojang.server_id",
]
UNDECIDED = ["arithmetic inside sha1 / num-bigint (documented contracts: two's-complement big-endian, lowercase, no leading zeros, leading '-')"]
TRUSTED = ["sha1::Sha1 implements SHA-1", "num_bigint::BigInt::from_signed_bytes_be / to_str_radix behave as documented"]

R = "C11/chain"


def check(ctx):
    body = ctx.body(r"^passage_adapters::authentication::minecraft_hash$")
    if body is None:
        return
    an = ctx.an(body)
    g = ctx.graph(body)

    news = calls(body, "Digest::new")
    ctx.exact(R, "Digest::new in minecraft_hash", len(news), 1, body.loc)
    if len(news) == 1:
        bb, t = news[0]
        ty = garg(t, 0) or ""
        ctx.check("sha1::Sha1Core" in ty and "sha2" not in ty, R, "C11/chain/hasher-type", site(body, bb),
                  reason="hasher type is %s, expected sha1::Sha1" % ty, detail="hasher type %s" % ty)
    ups = calls(body, "Digest::update")
    ctx.exact(R, "Digest::update in minecraft_hash", len(ups), 3, body.loc)
    # order by dominance and operand identity
    want = ["server_id", "shared_secret", "encoded_public"]
    if len(ups) == 3:
        order = sorted(ups, key=lambda x: sum(1 for y in ups if y is not x and always_before(g, y[0], x[0])))
        total = all(always_before(g, order[i][0], order[i + 1][0]) for i in range(2))
        allp = all(on_every_return_path(g, bb)[0] for bb, _ in order)
        ctx.check(total and allp, R, "C11/chain/update-order-total", body.loc,
                  reason="the three update calls are not totally ordered on every path",
                  detail="update calls totally ordered by dominance, each on every return path")
        got = []
        recv_ok = True
        for bb, t in order:
            got.append(param_name(arg(an, bb, t, 1)))
            r = flow.strip(arg(an, bb, t, 0))
            if not (r[0] == "call" and flow.short(r[1]).endswith("Digest::new")):
                recv_ok = False
        ctx.check(got == want, R, "C11/chain/update-operands", site(body, order[0][0]),
                  reason="update operands in order are %s, expected %s" % (got, want),
                  detail="update operands in dominance order: %s" % got)
        ctx.check(recv_ok, R, "C11/chain/update-receiver", site(body, order[0][0]),
                  reason="an update call is not on the hasher created by Digest::new",
                  detail="all updates on the single hasher")
    # return value shape
    e = return_expr(an)
    ok = False
    why = "return value is %s" % render(e, maxdepth=5)
    if e[0] == "call" and flow.short(e[1]).endswith("BigInt::to_str_radix"):
        radix = e[3][1]
        if radix[0] == "const" and radix[2] == 16:
            inner = flow.strip(e[3][0])
            if inner[0] == "call" and flow.short(inner[1]).endswith("BigInt::from_signed_bytes_be"):
                fin = flow.strip(inner[3][0])
                if fin[0] == "call" and flow.short(fin[1]).endswith("Digest::finalize"):
                    h = flow.strip(fin[3][0])
                    if h[0] == "call" and flow.short(h[1]).endswith("Digest::new"):
                        ok = True
                    else:
                        why = "finalize is not called on the hasher that was updated: %s" % render(h, maxdepth=3)
                else:
                    why = "from_signed_bytes_be operand is not finalize(hasher): %s" % render(fin, maxdepth=3)
            else:
                why = ("unrecognised-implementation: digest is not interpreted with BigInt::from_signed_bytes_be "
                       "(got %s)" % render(inner, maxdepth=2))
        else:
            why = "to_str_radix radix is %s, expected 16" % (radix,)
    else:
        why = "unrecognised-implementation: return value is not BigInt::to_str_radix(..): " + render(e, maxdepth=3)
    ctx.check(ok, R, "C11/chain/signed-hex", body.loc, reason=why,
              detail="return = to_str_radix(from_signed_bytes_be(finalize(hasher)), 16)")
    # no other calls than the accepted chain (a to_uppercase / format! / trimming step would show here)
    allowed = ("Digest::new", "Digest::update", "Digest::finalize", "Deref::deref", "BigInt::from_signed_bytes_be",
               "BigInt::to_str_radix", "AsRef::as_ref")
    extra = [cname(t) for bb, t in body.calls() if not body.is_noise(t)
             and not any(cname(t).endswith(a) or dname(t).endswith(a) for a in allowed)]
    ctx.check(not extra, R, "C11/chain/no-extra-steps", body.loc,
              reason="unrecognised-implementation: extra calls in minecraft_hash: %s" % extra,
              detail="only the accepted call chain occurs")

    # ---- C11/used
    RU = "C11/used"
    mb = ctx.body(r"^passage_adapters_http::mojang_adapter::\{impl#\d+\}::authenticate::\{closure#0\}$", rule=RU)
    if mb is not None:
        man = ctx.an(mb)
        hs = calls(mb, "authentication::minecraft_hash")
        ctx.exact(RU, "minecraft_hash call in MojangAdapter::authenticate", len(hs), 1, mb.loc)
        if len(hs) == 1:
            bb, t = hs[0]
            a0, a1, a2 = (arg(man, bb, t, i) for i in range(3))
            ctx.check(self_field(a0) == "server_id", RU, "C11/used/server-id", site(mb, bb),
                      reason="first hash operand is %s, expected self.server_id" % render(a0, maxdepth=4),
                      detail="server_id operand = self.server_id")
            ctx.check(param_name(a1) == "shared_secret", RU, "C11/used/shared-secret", site(mb, bb),
                      reason="second hash operand is %s, expected the shared_secret parameter" % render(a1, maxdepth=4),
                      detail="shared_secret operand = parameter shared_secret")
            ctx.check(param_name(a2) == "encoded_public", RU, "C11/used/encoded-public", site(mb, bb),
                      reason="third hash operand is %s, expected the encoded_public parameter" % render(a2, maxdepth=4),
                      detail="encoded_public operand = parameter encoded_public")
            # the hash reaches the request
            reqs = calls(mb, ("reqwest::Client::get", "reqwest::Client::request", "reqwest::Client::post"))
            hit = False
            for rbb, rt in reqs:
                for i in range(1, len(rt.args)):
                    e = arg(man, rbb, rt, i)
                    if [c for c in calls_in(e, "minecraft_hash") if c[4] == bb]:
                        hit = True
            ctx.check(hit, RU, "C11/used/in-request", site(mb, bb),
                      reason="the computed hash does not reach the session-server request",
                      detail="hash value flows into the request URL argument")
    # server_id wiring from configuration
    fb = ctx.body(r"^passage::adapter::authentication::\{impl#\d+\}::from_config::\{closure#0\}$", rule=RU)
    if fb is not None:
        fan = ctx.an(fb)
        ws = calls(fb, "MojangAdapter::with_server_id")
        ctx.exact(RU, "with_server_id in from_config", len(ws), 1, fb.loc)
        for bb, t in ws:
            root, fs = field_path(arg(fan, bb, t, 1))
            ctx.check(fs[-1:] == ["server_id"], RU, "C11/used/config-server-id", site(fb, bb),
                      reason="with_server_id argument is %s, expected the Mojang config's server_id" % render(arg(fan, bb, t, 1), maxdepth=4),
                      detail="with_server_id(<config>.server_id)")
    wb = ctx.body(r"^passage_adapters_http::mojang_adapter::\{impl#\d+\}::with_server_id$", rule=RU)
    if wb is not None:
        wan = ctx.an(wb)
        ups = builder_updates(wan)
        ok = param_name(ups.get("server_id", ("unknown", ""))) == "server_id" and len(ups) == 1
        ctx.check(ok, RU, "C11/used/builder-stores", wb.loc, reason="with_server_id does not store its argument",
                  detail="with_server_id stores the parameter into self.server_id")

"""C05 — Encrypted traffic is one continuous AES-128-CFB8 stream under any I/O schedule (DESIGN §5 C05). Structural part."""
from ..lib import *  # noqa: F401,F403
from .. import flow, events
from .listen_common import Listen

EXPLANATION = ("shape rules on CipherStream's AsyncWrite/AsyncRead impls: the persistent encryptor may only be advanced "
               "after — and by exactly — what the inner poll_write reported as accepted (Ready(Ok(n))); the decryptor "
               "only runs over the region filled by this very poll, located with a cursor taken before it; without ciphers "
               "both directions forward the caller's buffer untouched; cipher pair = cfb8<Aes128>(key = iv = secret); "
               "the switch to ciphertext sits between Encryption Response and Login Success with no I/O in between")
DECIDED = [
    "poll_write: every mutation of self.encryptor (encrypt_block_mut on it, or overwriting it with an advanced clone) is dominated by the Ready(Ok(n)) edge of the inner poll_write and covers buf[..n]; the bytes handed to the inner writer are produced from a clone (accepted idioms: clone-then-commit, or staged ciphertext kept in self)",
    "poll_read: the decrypted region is filled_mut()[c..] with c computed from the ReadBuf before the inner poll_read; decrypt calls are dominated by that inner call and by its readiness test",
    "with encryptor/decryptor None both polls forward the caller's buffer unchanged; poll_flush/poll_shutdown forward",
    "create_ciphers(s) builds cfb8::Encryptor<aes::Aes128> and cfb8::Decryptor<aes::Aes128> from (s, s); set_encryption stores (encryptor, decryptor) in the like-named fields",
    "apply_encryption is called exactly once, after the Encryption Response was decoded and before Login Success, with no send/receive in between",
]
UNDECIDED = ["the cipher arithmetic (cfb8/aes crates)", "the run-time equality 'bytes handed to the socket = reference encryption' — the rules are the structural conditions without which it cannot hold under partial/pending writes"]
TRUSTED = ["AsyncWrite contract: Ready(Ok(n)) means exactly the first n bytes were accepted; Pending/Err mean none", "cfb8 with block size 1: encrypting a prefix advances the state exactly as far"]

PW = r"^passage_protocol::crypto::stream::\{impl#\d+\}::poll_write$"
PR = r"^passage_protocol::crypto::stream::\{impl#\d+\}::poll_read$"


def data_spine(e):
    """the chain of values a byte slice is derived from, outermost first: through references, iterator adaptors,
    copies and slicing (always following the receiver / first argument), down to a parameter or an opaque value"""
    out = []
    for _ in range(60):
        while e[0] in ("ref", "deref", "cell"):
            e = e[3] if e[0] == "cell" else e[1]
        out.append(e)
        if e[0] == "mut":
            e = e[1]
        elif e[0] == "call" and e[3]:
            e = e[3][0]
        elif e[0] in ("field",):
            e = e[1]
        elif e[0] == "variant":
            e = e[1]
        elif e[0] in ("try", "await", "cast"):
            e = e[1] if e[0] != "cast" else e[2]
        elif e[0] == "phi" and len(e[1]) == 1:
            e = e[1][0]
        else:
            break
    return out


def is_persistent(e, field):
    """expression denotes (a reference into) self.<field> rather than a local clone"""
    if calls_in(e, "Clone::clone"):
        return False
    hits = find_all(e, lambda x: x[0] == "field" and x[2] == field)
    return bool(hits)


def check(ctx):
    R = "C05/commit-after-accept"
    b = ctx.body(PW, rule=R)
    if b is not None:
        an = ctx.an(b)
        g = ctx.graph(b)
        enc_sw = None
        for blk in b.blocks:
            if blk.cleanup or blk.term.kind != "switch":
                continue
            e, ls = an.switch_info(blk.idx)
            if find_all(e, lambda x: x[0] == "field" and x[2] == "encryptor") and any("Some" in l for l in ls.values()):
                enc_sw = (blk.idx, ls)
        ctx.check(enc_sw is not None, R, "C05/commit-after-accept/branch", b.loc, reason="anchor-missing: poll_write does not branch on self.encryptor",
                  detail="branch on self.encryptor Some/None")
        inner = calls(b, "AsyncWrite::poll_write")
        ctx.exact(R, "inner poll_write calls (plain + encrypted path)", len(inner), 2, b.loc)
        if enc_sw and len(inner) == 2:
            some_e = [(enc_sw[0], tb) for tb, l in enc_sw[1].items() if "Some" in l]
            none_e = [(enc_sw[0], tb) for tb, l in enc_sw[1].items() if "Some" not in l]
            W = [x for x in inner if g.must_pass(x[0], cut_edges=some_e)[0]]
            P = [x for x in inner if g.must_pass(x[0], cut_edges=none_e)[0]]
            ctx.check(len(W) == 1 and len(P) == 1, R, "C05/commit-after-accept/paths", b.loc,
                      reason="unrecognised-implementation: expected one inner write on the encrypted path and one on the plain path", detail="one inner write per path")
            if len(P) == 1:
                pb, pt = P[0]
                ok = param_name(arg(an, pb, pt, 2)) == "buf" and param_name(arg(an, pb, pt, 1)) == "cx" and \
                    bool(find_all(arg(an, pb, pt, 0), lambda x: x[0] == "field" and x[2] == "inner"))
                ctx.check(ok, "C05/passthrough", "C05/passthrough/write", site(b, pb),
                          reason="without an encryptor poll_write forwards %s" % render(arg(an, pb, pt, 2), maxdepth=3), detail="plain path: inner.poll_write(cx, buf)")
                r = return_expr(an)
                ctx.check(bool([c for c in calls_in(r, "AsyncWrite::poll_write") if c[4] == pb]), "C05/passthrough", "C05/passthrough/write-result", site(b, pb),
                          reason="the plain path does not return the inner result", detail="plain path returns the inner result")
            if len(W) == 1:
                wb, wt = W[0]
                # Ready(Ok(n)) edges on W's result
                ready_ok = []
                for blk in b.blocks:
                    if blk.cleanup or blk.term.kind != "switch":
                        continue
                    e, ls = an.switch_info(blk.idx)
                    x = flow.strip(e)
                    root = x
                    depth = []
                    while root[0] in ("field", "variant"):
                        depth.append(root[2] if root[0] == "variant" else "." + root[2])
                        root = flow.strip(root[1])
                    if root[0] == "call" and root[4] == wb:
                        if not depth:
                            ready_ok.append(("ready", blk.idx, [(blk.idx, tb) for tb, l in ls.items() if "Ready" in l]))
                        elif "Ready" in depth and not any(d == "Ok" for d in depth):
                            ready_ok.append(("ok", blk.idx, [(blk.idx, tb) for tb, l in ls.items() if "Ok" in l]))
                rdy = [x for x in ready_ok if x[0] == "ready"]
                okk = [x for x in ready_ok if x[0] == "ok"]
                # mutations of the persistent encryptor
                muts = []
                ENC = ("BlockEncryptMut::encrypt_block_mut", "encrypt_blocks_mut", "StreamCipher::apply_keystream", "encrypt_block_inout_mut")
                # encrypt calls: direct ones (receiver = argument 0, data = argument 1) and those a closure performs for an
                # iterator adaptor (`chunks.for_each(|b| cipher.encrypt_block_mut(b))`: receiver = captured cipher, data = the iterator)
                enc_sites = [(bb, t, arg(an, bb, t, 0), arg(an, bb, t, 1)) for bb, t in calls(b, ENC)]
                mediated_names = set()
                for bb, t, ai, cb, ibb, it, recv in closure_effects(ctx, b, ENC):
                    enc_sites.append((bb, t, recv if recv is not None else ("unknown", "closure receiver"), arg(an, bb, t, 0 if ai != 0 else 1)))
                    mediated_names.add(cname(t) or dname(t))
                for bb, t, recv, data in enc_sites:
                    if is_persistent(recv, "encryptor"):
                        muts.append((bb, "encrypt_block_mut", (t, data)))
                for bb, i, s in an.mem_writes:
                    if b.is_noise(s):
                        continue
                    tgt = an.place_expr(type(s.place)({"l": s.place.local, "p": [p for p in s.place.proj if p != "*"][:0]}), (bb, i), 0) if False else None
                    base = an.local_expr(s.place.local, (bb, i), 0)
                    if find_all(base, lambda x: x[0] == "field" and x[2] == "encryptor"):
                        muts.append((bb, "overwrite", s))
                bad = []
                for bb, kind, item in muts:
                    dom = bool(rdy) and bool(okk) and g.must_pass(bb, cut_edges=rdy[0][2])[0] and g.must_pass(bb, cut_edges=okk[0][2])[0]
                    if not dom:
                        bad.append((site(b, bb), kind))
                ctx.check(not bad, R, "C05/commit-after-accept/poll_write", site(b, wb),
                          reason=("the persistent encryptor is advanced at %s without being dominated by the Ready(Ok(n)) outcome of the inner poll_write at %s: "
                                  "when the transport returns Pending or accepts only a prefix, the caller re-submits plaintext whose keystream position has already "
                                  "been consumed and the ciphertext stream is corrupted") % (bad, site(b, wb)),
                          detail="every mutation of self.encryptor is dominated by inner poll_write == Ready(Ok(n)) (%d mutation sites)" % len(muts))
                ctx.check(bool(muts), R, "C05/commit-after-accept/keystream-advances", b.loc,
                          reason="the persistent encryptor is never advanced: every write would reuse the same keystream", detail="keystream is committed after acceptance")
                # the data handed to the inner writer is ciphertext produced without touching the persistent state
                data = arg(an, wb, wt, 2)
                dm = find_all(data, lambda x: x[0] == "mut")
                enc_calls_on_data = [c for c in enc_sites if g.path(g.nodes_of_bb(c[0]), [wb]) is not None]
                producers_ok = all(not is_persistent(c[2], "encryptor") for c in enc_calls_on_data)
                if bad:
                    producers_ok = True   # already reported above
                ctx.check(bool(bad) or (bool(enc_calls_on_data) and producers_ok), R, "C05/commit-after-accept/ciphertext-from-clone", site(b, wb),
                          reason="the bytes given to the inner writer are not produced by encrypting with a clone of the cipher state",
                          detail="ciphertext for the inner write comes from a cloned cipher")
                # committed range = buf[..n]: every mutation site is checked on its own
                if muts and not bad:
                    for bb, kind, item in muts:
                        rng_ok = False
                        why = ""
                        if kind == "overwrite":
                            # replacing the state by the clone is only right when everything was accepted: n == buf.len()
                            for blk in b.blocks:
                                if blk.cleanup or blk.term.kind != "switch":
                                    continue
                                e, ls = an.switch_info(blk.idx)
                                if e[0] == "binop" and e[1] == "Eq" and calls_in(e, "len") and param_name(flow.strip(calls_in(e, "len")[0][3][0])) == "buf" \
                                        and g.must_pass(bb, cut_edges=[(blk.idx, tb) for tb, l in ls.items() if "true" in l])[0]:
                                    rng_ok = True
                            why = "the encryptor is overwritten by the advanced clone without a dominating `written == buf.len()` test"
                        else:
                            src = item[1]
                            # walk the data spine from the encrypted bytes back to where they come from: outer -> inner
                            sp = data_spine(src)
                            idx = [k for k, x in enumerate(sp) if x[0] == "call" and flow.short(x[1]).endswith(("Index::index", "IndexMut::index_mut"))
                                   and flow.strip(x[3][1])[0] == "agg" and flow.strip(x[3][1])[1].endswith("RangeTo")]
                            rng_ok = bool(idx) and bool(sp) and param_name(sp[-1]) == "buf"
                            # the re-encrypted bytes must be the caller's plaintext: nothing between buf and the [..n] prefix may have gone through a cipher
                            if idx:
                                inner = sp[idx[-1] + 1:]
                                tainted = [m for m in inner if m[0] == "mut" and any(n.endswith("encrypt_block_mut") or n in mediated_names for n in m[2])]
                                if tainted:
                                    rng_ok = False
                            why = ("the real encryptor is advanced over %s; it must run over the accepted plaintext prefix buf[..n] — feeding it ciphertext "
                                   "(or any other bytes) leaves a wrong CFB8 feedback register after a short write") % render(flow.strip(src), maxdepth=4)
                        ctx.check(rng_ok, R, "C05/commit-after-accept/exactly-accepted-bytes/" + kind, site(b, bb), reason=why,
                                  detail="commit (%s) covers exactly the accepted plaintext buf[..n]" % kind)
    for fn in ("poll_flush", "poll_shutdown"):
        fb = ctx.body(r"^passage_protocol::crypto::stream::\{impl#\d+\}::%s$" % fn, rule="C05/passthrough")
        if fb is not None:
            fan = ctx.an(fb)
            r = flow.strip(return_expr(fan))
            ok = r[0] == "call" and flow.short(r[1]).endswith("AsyncWrite::" + fn) and bool(find_all(r[3][0], lambda x: x[0] == "field" and x[2] == "inner"))
            ctx.check(ok, "C05/passthrough", "C05/passthrough/" + fn, fb.loc, reason="%s returns %s" % (fn, render(r, maxdepth=3)), detail="%s forwards to inner" % fn)

    # ---- C05/read-window
    RR = "C05/read-window"
    b = ctx.body(PR, rule=RR)
    if b is not None:
        an = ctx.an(b)
        g = ctx.graph(b)
        inner = calls(b, "AsyncRead::poll_read")
        ctx.exact(RR, "inner poll_read calls", len(inner), 2, b.loc)
        dec_sw = None
        for blk in b.blocks:
            if blk.cleanup or blk.term.kind != "switch":
                continue
            e, ls = an.switch_info(blk.idx)
            if find_all(e, lambda x: x[0] == "field" and x[2] == "decryptor") and any("Some" in l for l in ls.values()):
                dec_sw = (blk.idx, ls)
        if dec_sw and len(inner) == 2:
            some_e = [(dec_sw[0], tb) for tb, l in dec_sw[1].items() if "Some" in l]
            none_e = [(dec_sw[0], tb) for tb, l in dec_sw[1].items() if "Some" not in l]
            W = [x for x in inner if g.must_pass(x[0], cut_edges=some_e)[0]]
            P = [x for x in inner if g.must_pass(x[0], cut_edges=none_e)[0]]
            if len(P) == 1:
                pb, pt = P[0]
                ctx.check(param_name(arg(an, pb, pt, 2)) == "buf", "C05/passthrough", "C05/passthrough/read", site(b, pb),
                          reason="without a decryptor poll_read forwards %s" % render(arg(an, pb, pt, 2), maxdepth=3), detail="plain path: inner.poll_read(cx, buf)")
            DEC = ("BlockDecryptMut::decrypt_block_mut", "decrypt_blocks_mut")
            # direct decrypt calls and those a closure performs for an iterator adaptor (receiver = captured cipher, data = the iterator)
            decs = [(db, dt, arg(an, db, dt, 0), arg(an, db, dt, 1)) for db, dt in calls(b, DEC)]
            for db, dt, ai, cb2, ibb, it, recv0 in closure_effects(ctx, b, DEC):
                decs.append((db, dt, recv0 if recv0 is not None else ("unknown", "closure receiver"), arg(an, db, dt, 0 if ai != 0 else 1)))
            ctx.floor(RR, "decrypt calls", len(decs), 1, b.loc)
            if len(W) == 1 and decs:
                wb, wt = W[0]
                for db, dt, recv_d, src in decs:
                    ctx.check(always_before(g, wb, db), RR, "C05/read-window/decrypt-after-inner-read", site(b, db),
                              reason="bytes are decrypted before the inner read filled them", detail="decrypt dominated by the inner poll_read")
                    idx = [c for c in calls_in(src, "Index::index") + calls_in(src, "IndexMut::index_mut")]
                    ok = False
                    cur_before = False
                    for c in idx:
                        base = flow.strip(c[3][0])
                        rng = flow.strip(c[3][1])
                        if base[0] == "call" and flow.short(base[1]).endswith("ReadBuf::<'_>::filled_mut") or (base[0] == "call" and flow.short(base[1]).endswith("filled_mut")):
                            if rng[0] == "agg" and rng[1].endswith("RangeFrom"):
                                st = flow.strip(rng[2][0][1])
                                # cursor = capacity - remaining  (== filled().len()) or filled().len()
                                cc = calls_in(st, "capacity") + calls_in(st, "remaining") + calls_in(st, "filled")
                                ok = bool(cc)
                                cur_before = all(always_before(g, x[4], wb) for x in cc)
                    ctx.check(ok and cur_before, RR, "C05/read-window/new-region-only", site(b, db),
                              reason="the decrypted region is %s; expected filled_mut()[cursor..] with the cursor taken before the inner read" % render(src, maxdepth=6),
                              detail="decrypts filled_mut()[cursor..], cursor = filled length before the inner read")
                    # only when the inner poll is ready
                    guards = []
                    for blk in b.blocks:
                        if blk.cleanup or blk.term.kind != "switch":
                            continue
                        e, ls = an.switch_info(blk.idx)
                        x = flow.strip(e)
                        if x[0] == "call" and flow.short(x[1]).endswith(("Poll::<T>::is_ready", "is_ready")):
                            guards += [(blk.idx, tb) for tb, l in ls.items() if "true" in l]
                        if x[0] == "call" and x[4] == wb:
                            guards += [(blk.idx, tb) for tb, l in ls.items() if "Ready" in l]
                    ctx.check(bool(guards) and g.must_pass(db, cut_edges=guards)[0], RR, "C05/read-window/only-when-ready", site(b, db),
                              reason="decryption runs although the inner read is Pending", detail="decrypt only when the inner poll is Ready")
                    recv = recv_d
                    ctx.check(is_persistent(recv, "decryptor"), RR, "C05/read-window/persistent-decryptor", site(b, db),
                              reason="decryption does not advance self.decryptor", detail="decrypt with the persistent decryptor")
                r = return_expr(an)
                ctx.check(bool([c for c in calls_in(r, "AsyncRead::poll_read") if c[4] == wb]), RR, "C05/read-window/returns-inner-result", b.loc,
                          reason="poll_read does not return the inner result", detail="returns the inner poll result")

    # ---- C05/key-iv
    RK = "C05/key-iv"
    cb = ctx.body(r"^passage_protocol::crypto::stream::create_ciphers$", rule=RK)
    if cb is not None:
        can = ctx.an(cb)
        ns = calls(cb, "KeyIvInit::new_from_slices")
        tys = sorted((garg(t, 0) or "") for _, t in ns)
        ctx.check(tys == ["cfb8::Decryptor<aes::Aes128>", "cfb8::Encryptor<aes::Aes128>"], RK, "C05/key-iv/cipher-types", cb.loc,
                  reason="ciphers are %s; expected cfb8::Encryptor<aes::Aes128> and cfb8::Decryptor<aes::Aes128>" % tys, detail="AES-128 in CFB8 mode, both directions")
        for bb, t in ns:
            k, iv = param_name(arg(can, bb, t, 0)), param_name(arg(can, bb, t, 1))
            ctx.check(k == "shared_secret" and iv == "shared_secret", RK, "C05/key-iv/" + (garg(t, 0) or "?").split("::")[1].split("<")[0], site(cb, bb),
                      reason="key=%s iv=%s" % (k, iv), detail="key = iv = shared secret")
        r = return_expr(can)
        oks = find_all(r, lambda x: x[0] == "agg" and x[1].endswith("Result::Ok"))
        order = False
        if len(oks) == 1:
            tup = flow.strip(oks[0][2][0][1])
            if tup[0] == "agg" and len(tup[2]) == 2:
                t0 = [c[5][0] for c in calls_in(tup[2][0][1], "new_from_slices")]
                t1 = [c[5][0] for c in calls_in(tup[2][1][1], "new_from_slices")]
                order = t0 == ["cfb8::Encryptor<aes::Aes128>"] and t1 == ["cfb8::Decryptor<aes::Aes128>"]
        ctx.check(order, RK, "C05/key-iv/pair-order", cb.loc, reason="create_ciphers does not return (encryptor, decryptor)", detail="returns (encryptor, decryptor)")
    sb = ctx.body(r"^passage_protocol::crypto::stream::\{impl#\d+\}::set_encryption$", rule=RK)
    if sb is not None:
        san = ctx.an(sb)
        w = {}
        for bb, i, s in san.mem_writes:
            w[s.place.fields()[-1]] = param_name(san.rvalue_expr(s.rv, (bb, i), 0))
        ctx.check(w == {"encryptor": "encryptor", "decryptor": "decryptor"}, RK, "C05/key-iv/set-encryption", sb.loc,
                  reason="set_encryption stores %s" % w, detail="set_encryption stores encryptor/decryptor in the like-named fields")
    ab = ctx.body(r"^passage_protocol::connection::\{impl#\d+\}::apply_encryption$", rule=RK)
    if ab is not None:
        aan = ctx.an(ab)
        se = calls(ab, "set_encryption")
        ok = False
        for bb, t in se:
            e0, e1 = flow.strip(arg(aan, bb, t, 1)), flow.strip(arg(aan, bb, t, 2))
            def pick(e):
                if e[0] == "agg" and e[1].endswith("Option::Some"):
                    r, fs = field_path(e[2][0][1])
                    return fs[-1:] if calls_in(r, "create_ciphers") else None
                return None
            ok = pick(e0) == ["0"] and pick(e1) == ["1"] and self_field(arg(aan, bb, t, 0)) == "stream"
        ctx.check(ok, RK, "C05/key-iv/apply-wires-pair", ab.loc, reason="apply_encryption does not install create_ciphers(secret)'s (.0, .1) as (encryptor, decryptor) on self.stream",
                  detail="self.stream.set_encryption(Some(pair.0), Some(pair.1))")

    # ---- C05/switch-point
    RS = "C05/switch-point"
    L = Listen(ctx, RS)
    if L.ok:
        aps = L.sites("call:apply_encryption")
        ctx.exact(RS, "apply_encryption call sites in listen", len(aps), 1, L.body.loc)
        if len(aps) == 1:
            abb = aps[0][0]
            er = [bb for bb, e, st in L.sites("recv:login::serverbound::EncryptionResponse")]
            ls = [bb for bb, e, st in L.sites("send:login::clientbound::LoginSuccess")]
            ok = len(er) == 1 and len(ls) == 1 and always_before(L.g, er[0], abb) and always_before(L.g, abb, ls[0])
            ctx.check(ok, RS, "C05/switch-point/between-response-and-success", aps[0][2],
                      reason="apply_encryption is not between the Encryption Response and Login Success", detail="EncryptionResponse < apply_encryption < LoginSuccess")
            if ok:
                # no send/recv between
                io_bbs = [bb for bb, es in L.ev.items() for _, e, _ in es if e.startswith(("send:", "rp:", "recv:"))]
                between = [bb for bb in io_bbs if bb not in (er[0], ls[0]) and always_before(L.g, er[0], bb) and always_before(L.g, bb, ls[0])
                           and not always_before(L.g, bb, er[0])]
                between = [bb for bb in between if L.g.path(L.g.nodes_of_bb(er[0]), [bb]) and L.g.path(L.g.nodes_of_bb(bb), [ls[0]])]
                ctx.check(not between, RS, "C05/switch-point/no-io-between", aps[0][2],
                          reason="packets are exchanged between the Encryption Response and Login Success at %s" % [site(L.body, x) for x in between],
                          detail="no send/receive between Encryption Response and Login Success")
        others = []
        for k, bd in ctx.prog.lib_bodies.items():
            if k.startswith("passage_protocol::") and not k.startswith("passage_protocol::connection::{impl#0}::listen") and "apply_encryption" not in k:
                for bb, t in calls(bd, ("Connection::apply_encryption", "set_encryption")):
                    others.append(k)
        ctx.check(not others, RS, "C05/switch-point/who-may-switch", "", reason="encryption is also switched from %s" % others, detail="encryption switched only from listen()")

"""C13 — Per-address rate limiting is bounded, fair between addresses and self-cleaning (DESIGN §5 C13).

Decided as conformance of RateLimiter::enqueue to the reference sliding-window-counter algorithm
(spec/c13.md holds the paper argument from the algorithm to the numeric bounds)."""
import re

from ..lib import *  # noqa: F401,F403
from .. import flow, boolform
from ..boolform import canon

EXPLANATION = ("conformance of RateLimiter::enqueue to the reference sliding-window-counter algorithm: guard atoms and "
               "their operand expression trees (modulo commutativity), the stores on each guard edge and their order, "
               "the single increment behind the admit edge, cell provenance (every counter access goes through "
               "self.buckets.entry(key)), the cleanup trigger/retain predicate, one clock reading per decision")
DECIDED = [
    "roll iff now − window ≥ duration; additionally current := 0 first iff now − window ≥ 2·duration; on roll window := now, prev := current, current := 0 in that effective order",
    "reject (return false, no counter write) iff prev·(1 − (now − window)/duration) + current ≥ limit, evaluated after a possible roll",
    "the only increment current += 1 is behind the admit edge",
    "all counter reads/writes go through self.buckets.entry(key); the retain closure writes nothing and keeps an entry iff now − entry.window < 2·duration; cleanup iff now − last_cleanup ≥ 2·duration, then last_cleanup := now",
    "one Instant::now() feeds the whole admission decision",
]
UNDECIDED = ["f32 rounding (limits above 2^24, durations whose as_secs_f32 is inexact)", "the bound arithmetic itself — numeric, argued on paper in spec/c13.md"]
TRUSTED = ["tokio::time::Instant::saturating_duration_since", "HashMap::entry/or_insert/retain"]

ENQ = r"^passage_protocol::rate_limiter::\{impl#\d+\}::enqueue$"


CELLS = {}


def ncanon(e):
    """canonical string with commutative operators sorted; entry fields renamed to window/prev/current"""
    x = flow.strip(e)
    if x[0] == "field" and x[2] in CELLS.get("names", {"0": "window", "1": "prev", "2": "current"}):
        base = flow.strip(x[1])
        if base[0] == "call" and base[4] == CELLS.get("site"):
            return CELLS.get("names", {"0": "window", "1": "prev", "2": "current"})[x[2]]
    if x[0] == "const" and isinstance(x[2], str):
        try:
            return repr(float(x[2]))
        except ValueError:
            return x[2]
    if x[0] == "binop" and x[1] in ("Add", "Mul"):
        a, b = sorted([ncanon(x[2]), ncanon(x[3])])
        return "%s(%s,%s)" % (x[1], a, b)
    if x[0] == "binop":
        return "%s(%s,%s)" % (x[1], ncanon(x[2]), ncanon(x[3]))
    if x[0] == "call":
        nm = "::".join(flow.short(x[2] or x[1]).split("::")[-2:])
        nm = re.sub(r"^.*::", "", nm) if nm.endswith(("::mul", "::ge", "::lt", "::gt", "::le")) else nm
        args = [ncanon(a) for a in x[3]]
        if nm == "mul":
            args = sorted(args)
        return "%s(%s)" % (nm, ",".join(args))
    if x[0] == "field":
        return "%s.%s" % (ncanon(x[1]), x[2])
    if x[0] == "param":
        return "param:%s" % x[2]
    if x[0] == "const":
        return str(x[2])
    if x[0] == "cell":
        return ncanon(x[3])
    return canon(x)


def _split_top(s):
    """'name(a,b)' -> (name, [a, b]) splitting only at top-level commas; None if s is not of that form"""
    m = re.match(r"^(\w+)\((.*)\)$", s)
    if not m:
        return None
    args, depth, cur = [], 0, ""
    for ch in m.group(2):
        if ch == "," and depth == 0:
            args.append(cur)
            cur = ""
            continue
        depth += ch in "([{"
        depth -= ch in ")]}"
        cur += ch
    args.append(cur)
    return m.group(1), args


def norm_cmp(s, ls):
    """every ordering test in `>=` form: lt(a,b) = ¬ge(a,b), le(a,b) = ge(b,a), gt(a,b) = ¬ge(b,a) (labels flipped when negated),
    for the method spelling (Duration) and the operator spelling (f32)"""
    sp = _split_top(s)
    if sp is None or len(sp[1]) != 2 or sp[0].lower() not in ("lt", "le", "gt", "ge") or sp[0] == "ge" or sp[0] == "Ge":
        return s, ls
    name, (a, b) = sp
    ge = "Ge" if name[0].isupper() else "ge"
    low = name.lower()
    flip = low in ("lt", "gt")
    if low in ("le", "gt"):
        a, b = b, a
    if flip:
        sw_ = {"true": "false", "false": "true"}
        ls = {tb: [sw_.get(l, l) for l in labs] for tb, labs in ls.items()}
    return "%s(%s,%s)" % (ge, a, b), ls


def check(ctx):
    limiter_key(ctx)
    R = "C13/guards"
    b = ctx.body(ENQ, rule=R)
    if b is None:
        return
    an = ctx.an(b)
    g = ctx.graph(b)
    nows = calls(b, "Instant::now")
    ctx.exact("C13/now-once", "Instant::now() in enqueue", len(nows), 2, b.loc)
    ors = calls(b, ("Entry::<'a, K, V>::or_insert", "Entry::or_insert"))
    ctx.exact("C13/key-isolation", "buckets.entry(key).or_insert(..)", len(ors), 1, b.loc)
    if len(ors) != 1 or not nows:
        return
    CELLS["site"] = ors[0][0]
    first_now = sorted(nows, key=lambda x: 0 if all(always_before(g, x[0], y[0]) or x is y for y in nows) else 1)[0][0]
    ob, ot = ors[0]
    ent = flow.strip(arg(an, ob, ot, 0))
    ok = ent[0] == "call" and flow.short(ent[1]).endswith("::entry") and param_path(ent[3][0]) == ("self", ["buckets"]) and param_path(ent[3][1]) == ("key", [])
    ctx.check(ok, "C13/key-isolation", "C13/key-isolation/entry-by-key", site(b, ob),
              reason="bucket is obtained by %s; expected self.buckets.entry(key)" % render(ent, maxdepth=3), detail="bucket = self.buckets.entry(key).or_insert(..)")
    init = flow.strip(arg(an, ob, ot, 1))
    # the bucket is a 3-field value (tuple on the pinned tree); its fields are identified by declaration position
    CELLS["names"] = {"0": "window", "1": "prev", "2": "current"}
    if init[0] == "agg" and len(init[2]) == 3:
        CELLS["names"] = dict(zip([n for n, _ in init[2]], ["window", "prev", "current"]))
    iok = init[0] == "agg" and [ncanon(v) for _, v in init[2]] == ["Instant::now()", "0.0", "0.0"]
    ctx.check(iok, "C13/key-isolation", "C13/key-isolation/fresh-bucket", site(b, ob),
              reason="a new bucket starts as %s; expected (now, 0, 0)" % render(init, maxdepth=3), detail="new bucket = (now, 0, 0)")
    # the three cells: locals holding &mut (or_insert result).k
    cells = {}
    for blk in b.blocks:
        if blk.cleanup:
            continue
        for i, s in enumerate(blk.stmts):
            if s.kind == "assign" and s.rv.k == "ref" and s.place.is_local():
                e = an.rvalue_expr(s.rv, (blk.idx, i), 0)
                x = flow.strip(e)
                if x[0] == "field" and x[2] in CELLS["names"]:
                    base = flow.strip(x[1])
                    if base[0] == "call" and base[4] == ob:
                        cells[s.place.local] = CELLS["names"][x[2]]
    # the entry itself held in one local (`let bucket = ..or_insert(..); bucket.current += 1.0`): cells are (*local).field
    entry_locals = set()
    for blk in b.blocks:
        if blk.cleanup:
            continue
        t0 = blk.term
        if t0.kind == "call" and blk.idx == ob and t0.dest is not None and t0.dest.is_local():
            entry_locals.add(t0.dest.local)
    grew = True
    while grew:
        grew = False
        for blk in b.blocks:
            if blk.cleanup:
                continue
            for s0 in blk.stmts:
                if s0.kind == "assign" and s0.place.is_local() and s0.place.local not in entry_locals and s0.rv.k in ("use", "ref") \
                        and ((s0.rv.k == "use" and s0.rv.ops and s0.rv.ops[0].place is not None and s0.rv.ops[0].place.local in entry_locals
                              and [p for p in s0.rv.ops[0].place.proj if p != "*"] == [])
                             or (s0.rv.k == "ref" and s0.rv.place is not None and s0.rv.place.local in entry_locals
                                 and [p for p in s0.rv.place.proj if p != "*"] == [])):
                    entry_locals.add(s0.place.local)
                    grew = True

    def cell_role(pl):
        """role (window/prev/current) of a place that denotes one of this key's three cells, else None"""
        if pl.local in cells and pl.proj == ["*"]:
            return cells[pl.local]
        nonderef = [p for p in pl.proj if p != "*"]
        if pl.local in entry_locals and len(nonderef) == 1 and isinstance(nonderef[0], dict) and nonderef[0].get("n") in CELLS["names"]:
            return CELLS["names"][nonderef[0]["n"]]
        return None
    direct = set()
    for bb0, i0, s0 in an.mem_writes:
        r0 = cell_role(s0.place)
        if r0 and s0.place.local in entry_locals:
            direct.add(r0)
    have_roles = sorted(set(cells.values()) | direct)     # several reference locals may name the same cell (re-destructured entry)
    if not cells and entry_locals:
        have_roles = ["current", "prev", "window"] if len(CELLS["names"]) == 3 else have_roles
    ctx.check(have_roles == ["current", "prev", "window"], "C13/key-isolation", "C13/key-isolation/cells", site(b, ob),
              reason="bucket cells bound: %s" % cells, detail="window/prev/current are the three fields of this key's entry")

    def cellname(e):
        """rename reads of the entry fields"""
        s = ncanon(e)
        s = re.sub(r"(Entry::)?or_insert\([^)]*\)[^.]*\)\.0", "window", s)
        return s

    def rename(s):
        s = s.replace("Instant::now()", "now")
        s = s.replace("Instant::saturating_duration_since", "since").replace("Duration::as_secs_f32", "secs")
        s = s.replace("param:self.", "self.")
        return s

    def R_(e):
        return rename(ncanon(e).replace("HashMap::entry", "entry").replace("Entry::or_insert", "or_insert"))

    # stores through the cells
    stores = []
    for bb, i, s in an.mem_writes:
        if b.is_noise(s):
            continue
        if cell_role(s.place):
            stores.append((bb, i, cell_role(s.place), R_(an.rvalue_expr(s.rv, (bb, i), 0))))
        elif s.place.fields()[-1:] == ["last_cleanup"]:
            stores.append((bb, i, "last_cleanup", R_(an.rvalue_expr(s.rv, (bb, i), 0))))
        else:
            stores.append((bb, i, "other:" + s.place.text(), ""))
    # switches
    sw = {}
    for blk in b.blocks:
        if blk.cleanup or blk.term.kind != "switch" or b.is_noise(blk.term):
            continue
        e, ls = an.switch_info(blk.idx)
        sw[blk.idx] = norm_cmp(R_(e), ls)
    AGE = "since(now,window)"

    def comm(op, a, b2):
        a, b2 = sorted([a, b2])
        return "%s(%s,%s)" % (op, a, b2)
    weight = "Sub(1.0,Div(secs(%s),secs(self.duration)))" % AGE
    value = comm("Add", comm("Mul", "prev", weight), "current")
    want = {
        "roll": ("ge(%s,self.duration)" % AGE,),
        "stale": ("ge(%s,mul(2,self.duration))" % AGE,),
        "reject": ("Ge(%s,self.limit)" % value,),
        "cleanup": ("ge(since(now,self.last_cleanup),mul(2,self.duration))",),
    }
    found = {}
    for k, pats in want.items():
        for bb, (s, ls) in sw.items():
            if s in pats:
                found[k] = (bb, ls)
    for k in sorted(want):
        ctx.check(k in found, R, "C13/guards/%s-atom" % k, b.loc,
                  reason="unrecognised-implementation: no branch on `%s` in enqueue (branches: %s)" % (want[k][0], sorted(s for s, _ in sw.values() if "level" not in s.lower())[:6]),
                  detail="%s guard: %s" % (k, want[k][0]))
    if len(found) != 4:
        return

    def edge(k, label):
        bb, ls = found[k]
        return [(bb, tb) for tb, l in ls.items() if label in l]

    def dominated(bb, k, label):
        return g.must_pass(bb, cut_edges=edge(k, label))[0]

    # roll: what the three cells hold when the admission test is evaluated, per scenario (pv/sample.py Scenario) —
    # computed by forward propagation of the stores along every path of the scenario, so the order and spelling of the
    # stores does not matter, only their net effect
    from ..sample import Scenario
    roll_st = [s for s in stores if dominated(s[0], "roll", "true") and s[2] in ("window", "prev", "current")]

    def forced(choice):
        def swf(bb, e, ls):
            for k, lab in choice.items():
                if bb == found[k][0]:
                    # `lab` is in terms of the normalised (>=) form of the test; translate to this switch's own edge labels
                    tbs = [tb for tb, nl in found[k][1].items() if lab in nl]
                    return tuple(l for tb in tbs for l in ls.get(tb, []))
            return None
        return swf

    def states(choice):
        scn = Scenario(ctx, b, switches=forced(choice), opt=False)
        gg = scn.g
        goal = found["reject"][0]
        out = set()
        npaths = [0]

        def val(op, env, mem, point):
            if op.place is None:
                return R_(an.const_expr(op.const))
            pl = op.place
            if cell_role(pl):
                return mem.get(cell_role(pl), cell_role(pl) + "0")
            if pl.is_local() and pl.local in env:
                return env[pl.local]
            x = R_(an.operand_expr(op, point, 0))
            return x

        def walk(n, env, mem, seen):
            if npaths[0] > 500 or n in seen:
                return
            bb = gg.bb(n)
            if bb == goal:
                npaths[0] += 1
                out.add((mem.get("window", "window0"), mem.get("prev", "prev0"), mem.get("current", "current0")))
                return
            blk = b.blocks[bb]
            env = dict(env)
            mem = dict(mem)
            for i2, s2 in enumerate(blk.stmts):
                if s2.kind != "assign" or b.is_noise(s2):
                    continue
                if s2.rv.k in ("use", "cast") and s2.rv.ops:
                    v = val(s2.rv.ops[0], env, mem, (bb, i2))
                elif s2.rv.k == "binop":
                    x, y = val(s2.rv.ops[0], env, mem, (bb, i2)), val(s2.rv.ops[1], env, mem, (bb, i2))
                    v = comm(s2.rv.j["op"], x, y) if s2.rv.j["op"] in ("Add", "Mul") else "%s(%s,%s)" % (s2.rv.j["op"], x, y)
                else:
                    v = None
                if cell_role(s2.place):
                    mem[cell_role(s2.place)] = v if v is not None else "?"
                elif s2.place.is_local():
                    if v is not None:
                        env[s2.place.local] = v
                    else:
                        env.pop(s2.place.local, None)
            t2 = blk.term
            if t2.kind == "call" and t2.dest is not None and t2.dest.is_local():
                env.pop(t2.dest.local, None)
            for m in gg.succ[n]:
                walk(m, env, mem, seen | {n})
        for n0 in gg.nodes_of_bb(ob):
            walk(n0, {}, {}, frozenset())
        return out
    want_states = {
        "no-roll": ({"roll": "false"}, ("window0", "prev0", "current0")),
        "roll": ({"roll": "true", "stale": "false"}, ("now", "current0", "0.0")),
        "roll-stale": ({"roll": "true", "stale": "true"}, ("now", "0.0", "0.0")),
    }
    got_states = {}
    for nm, (choice, wanted) in sorted(want_states.items()):
        got_states[nm] = states(choice)
    ok = all(got_states[nm] == {want_states[nm][1]} for nm in ("no-roll", "roll"))
    ctx.check(ok, R, "C13/guards/roll-stores", site(b, found["roll"][0]),
              reason="(window, prev, current) at the admission test: without a roll %s, after a roll %s; expected (window, prev, current) unchanged / (now, current, 0)"
                     % (sorted(got_states["no-roll"]), sorted(got_states["roll"])),
              detail="age < d: cells unchanged; d <= age < 2d: (window, prev, current) := (now, current, 0)")
    ctx.check(got_states["roll-stale"] == {want_states["roll-stale"][1]}, R, "C13/guards/stale-zeroes-current", site(b, found["stale"][0]),
              reason="(window, prev, current) at the admission test when age >= 2·duration: %s; expected (now, 0, 0): an expired previous window must not count" % sorted(got_states["roll-stale"]),
              detail="age >= 2d: (window, prev, current) := (now, 0, 0)")
    # the 2·duration test has no effect unless the window rolls
    ns = states({"roll": "false", "stale": "true"})
    ctx.check(ns == {want_states["no-roll"][1]} or not ns, R, "C13/guards/stale-inside-roll", site(b, found["stale"][0]),
              reason="the 2·duration test changes the cells without a roll: %s" % sorted(ns), detail="2d test only matters when age >= d")
    # the reject test comes after the roll region on every path
    roll_blocks = sorted(set(s[0] for s in roll_st))
    after = all(always_before(g, found["roll"][0], found["reject"][0]) for _ in [0]) and not any(
        g.path(g.nodes_of_bb(found["reject"][0]), [rb]) for rb in roll_blocks)
    ctx.check(after, R, "C13/guards/reject-after-roll", site(b, found["reject"][0]),
              reason="the admission test is not evaluated after the window roll", detail="admission test after a possible roll")
    # reject edge: return false, no store
    rej_starts = []
    for (_, tb) in edge("reject", "true"):
        rej_starts += g.nodes_of_bb(tb)
    reach = set(g.bb(n) for n in g.reachable(rej_starts))
    bad = [s for s in stores if s[0] in reach]
    RC = "C13/count-only-admitted"
    ctx.check(not bad, RC, "C13/count-only-admitted/reject-writes-nothing", site(b, found["reject"][0]),
              reason="a rejected attempt still writes %s" % [(s[2], s[3]) for s in bad], detail="reject path performs no write")
    rets = {}
    for conds, blocks in boolform.paths(ctx, b):
        v = boolform.path_value(ctx, b, blocks)
        rv = flow.strip(v)[2] if v is not None and flow.strip(v)[0] == "const" else None
        took = [c for c in conds if c[0] == found["reject"][0]]
        if took:
            lab = found["reject"][1].get(took[0][1], ["?"])[0]
            rets.setdefault(lab, set()).add(rv)
    ctx.check(rets.get("true") == {False} and rets.get("false") == {True}, RC, "C13/count-only-admitted/verdicts", site(b, found["reject"][0]),
              reason="verdicts per edge of the admission test: %s; expected reject -> false, admit -> true" % rets,
              detail="value ≥ limit -> false; otherwise -> true")
    incs = [s for s in stores if s[2] == "current" and s[3] == comm("Add", "1.0", "current")]
    ctx.check(len(incs) == 1 and dominated(incs[0][0], "reject", "false"), RC, "C13/count-only-admitted/single-increment", b.loc,
              reason="increments of current: %s; expected exactly one, behind the admit edge" % [(s[0], s[3]) for s in stores if s[2] == "current" and "Add" in s[3]],
              detail="current += 1 only on the admit edge")
    others = [s for s in stores if s not in roll_st and s not in incs and s[2] != "last_cleanup"]
    ctx.check(not others, RC, "C13/count-only-admitted/no-other-writes", b.loc,
              reason="unexpected counter writes: %s" % [(s[2], s[3]) for s in others], detail="no other writes to the counters")
    # cleanup
    rt = calls(b, ("HashMap::<K, V, S>::retain", "HashMap::retain"))
    ctx.exact(R, "buckets.retain(..)", len(rt), 1, b.loc)
    if len(rt) == 1:
        rb, rtt = rt[0]
        ctx.check(dominated(rb, "cleanup", "true") and dominated(rb, "reject", "false"), R, "C13/guards/cleanup-trigger", site(b, rb),
                  reason="retain is not guarded by now − last_cleanup ≥ 2·duration", detail="cleanup iff now − last_cleanup ≥ 2d (admit path)")
        ctx.check(param_path(arg(an, rb, rtt, 0)) == ("self", ["buckets"]), R, "C13/guards/cleanup-on-buckets", site(b, rb),
                  reason="retain on %s" % render(arg(an, rb, rtt, 0), maxdepth=2), detail="retain on self.buckets")
        clo = flow.strip(arg(an, rb, rtt, 1))
        cb = ctx.prog.lib_bodies.get(clo[1].split(":", 1)[1]) if clo[0] == "agg" and clo[1].startswith("closure:") else None
        if cb is not None:
            f = boolform.function_formula(ctx, cb)
            ats = boolform.atoms_of(f)
            s = boolform.show(f)
            can = ctx.an(cb)
            r = flow.strip(return_expr(can))
            pred = R_(r).replace("cap:", "")
            caps0 = dict(clo[2])
            # a captured pre-computed value stands for its definition (`let max_age = self.duration * 2`)
            for cn, cv in sorted(caps0.items(), key=lambda kv: -len(kv[0])):
                val = R_(cv)
                if val not in ("now", "self.duration"):
                    pred = re.sub(r"\*{0,2}env\.%s\b" % re.escape(cn), val, pred)
            sp = _split_top(pred)
            if sp and sp[0] == "gt" and len(sp[1]) == 2:
                pred = "lt(%s,%s)" % (sp[1][1], sp[1][0])     # a > b  ==  b < a
            if sp and sp[0] == "ge" and len(sp[1]) == 2 and False:
                pass
            okp = bool(re.match(r"lt\(since\(\*?\*?env\._ref__now,\*?param:[\w_]+\.?[\w.]*\),mul\(2,\*?\*?env\._ref__self__duration\)\)$", pred.replace(" ", ""))) or \
                bool(re.search(r"lt\(since\(.*now.*\),mul\(2,.*duration.*\)\)$", pred))
            ctx.check(okp, R, "C13/guards/retain-predicate", cb.loc,
                      reason="retain keeps an entry iff %s; expected now − entry.window < 2·duration" % pred, detail="keep iff now − entry.window < 2d")
            ctx.check(not ctx.an(cb).mem_writes, "C13/key-isolation", "C13/key-isolation/retain-writes-nothing", cb.loc,
                      reason="the retain closure writes to entries", detail="retain closure only reads")
            caps = dict(clo[2])
            # only the clock reading and the window length (or values computed from them) enter the predicate
            capvals = sorted(R_(v) for v in caps.values())
            capok = bool(capvals) and all(set(re.findall(r"[A-Za-z_][\w.]*", cv)) <= {"now", "self.duration", "mul", "Mul"} for cv in capvals) \
                and any("now" in cv for cv in capvals) and any("self.duration" in cv for cv in capvals)
            ctx.check(capok, "C13/key-isolation", "C13/key-isolation/retain-captures", site(b, rb),
                      reason="retain closure captures %s" % sorted(R_(v) for v in caps.values()), detail="retain closure captures only now and self.duration")
        lc = [s for s in stores if s[2] == "last_cleanup"]
        ctx.check(len(lc) == 1 and lc[0][3] == "now" and always_before(g, rb, lc[0][0]) and dominated(lc[0][0], "cleanup", "true"), R,
                  "C13/guards/last-cleanup-updated", b.loc,
                  reason="last_cleanup writes: %s; expected last_cleanup := Instant::now() after (and only after) a cleanup" % [(s[0], s[3]) for s in lc],
                  detail="last_cleanup := now after retain")
    # no other method touches buckets
    RK = "C13/key-isolation"
    touch = []
    for k, bd in ctx.prog.lib_bodies.items():
        if k.startswith("passage_protocol::") and not k.startswith("passage_protocol::rate_limiter::{impl#0}::enqueue"):
            for blk in bd.blocks:
                for s in blk.stmts:
                    if s.kind == "assign" and s.rv.place is not None and "buckets" in s.rv.place.fields() and bd.kind != "Promoted":
                        if not k.endswith("::new"):
                            touch.append(k)
    ctx.check(not touch, RK, "C13/key-isolation/only-enqueue-touches-buckets", "", reason="buckets accessed from %s" % sorted(set(touch)),
              detail="buckets accessed only by new() and enqueue()")
    # now-once: every `since(now, ..)` in the decision uses the first now
    RN = "C13/now-once"
    uses = [s for s, _ in sw.values() if "since(" in s]
    ctx.check(all("since(now," in s for s in uses) and len(uses) >= 4, RN, "C13/now-once/single-reading", b.loc,
              reason="time differences are not all taken against the one `now`: %s" % uses, detail="all %d age computations use the same now" % len(uses))
    # constructor
    nb = ctx.body(r"^passage_protocol::rate_limiter::\{impl#\d+\}::new$", rule=R)
    if nb is not None:
        nan = ctx.an(nb)
        r = flow.strip(return_expr(nan))
        f = dict(r[2]) if r[0] == "agg" else {}
        lim = flow.strip(f.get("limit", ("unknown", "")))
        ok = param_path(f.get("duration", ("unknown", ""))) == ("duration", []) and lim[0] == "cast" and param_path(lim[2]) == ("limit", [])
        ctx.check(ok, R, "C13/guards/constructor", nb.loc, reason="RateLimiter::new stores %s" % render(r, maxdepth=3), detail="new stores duration and limit")
        asserts = [blk for blk in nb.blocks if blk.term.kind == "switch" and not blk.cleanup]
        pos = any("Gt(" in R_(nan.switch_info(blk.idx)[0]) and "secs(param:duration)" in R_(nan.switch_info(blk.idx)[0]) for blk in asserts)
        ctx.check(pos, R, "C13/guards/duration-positive", nb.loc, reason="new() does not insist on duration > 0 (division by zero in the weight)",
                  detail="assert!(duration > 0)")


def limiter_key(ctx):
    """fairness between addresses presupposes that the limiter is asked about the address the client really has: the
    effective-address clauses of C15 are re-evaluated here (same rule code, C13 keys)"""
    from .. import core
    from . import c15
    sub = core.Ctx(ctx.prop, ctx.prog, ctx.tier, ctx.config)
    c15.check(sub)
    seen = 0
    for o in sub.obligations:
        if o["key"] in ("C15/effective-address/value", "C15/effective-address/limiter-key-is-ip", "C15/effective-address/single-budget-site"):
            seen += 1
            ctx.check(o["ok"], "C13/key-is-client-address", "C13/key-is-client-address/" + o["key"].split("/")[-1], o["site"], reason=o["detail"], detail=o["detail"])
    ctx.floor("C13/key-is-client-address", "effective-address clauses evaluated", seen, 3)

"""C19 — Targets cross the gRPC adapter boundary unchanged (DESIGN §5 C19)."""
from ..lib import *  # noqa: F401,F403
from .. import flow

EXPLANATION = ("field-mapping tables extracted from the conversion bodies of passage-adapters-grpc (proto.rs) and the "
               "request assembly of the strategy/status/discovery adapters: every field's only origin is the like-named "
               "source field; the decoder's address parser must accept exactly what the encoder emits "
               "(IpAddr::to_string <-> IpAddr::from_str, u32::from(port) <-> u16::try_from), with errors on the Err edge; "
               "no truncating cast on wire-derived integers")
DECIDED = [
    "encode: identifier <- identifier, address.hostname <- address.ip().to_string(), address.port <- u32::from(address.port()), one MetaEntry{key <- k, value <- v} per map entry",
    "decode: identifier <- identifier, meta <- (entry.key, entry.value), missing address -> Err; socket address = SocketAddr::new(IpAddr::from_str(hostname)?, u16::try_from(port)?) — the parser that inverts the encoder for IPv4 and IPv6",
    "no `as` narrowing of a wire-derived integer on the decode paths",
    "SelectRequest / StatusRequest fields come from the like-named parameters; targets = targets.iter().map(From); responses: target.map(TryInto).transpose() with errors propagated; discover collects try_into of every target",
]
UNDECIDED = ["prost/tonic wire encoding (generated code is analysed only as struct definitions)"]
TRUSTED = ["IpAddr::from_str parses every string IpAddr::to_string produces", "u16::try_from(u32) rejects values above 65535"]

PROTO = "passage_adapters_grpc::proto::"


def conv_body(ctx, pattern, rule):
    bs = [b for b in ctx.prog.find_bodies(r"^passage_adapters_grpc::proto::\{impl#\d+\}::(try_from|from)$") if pattern(b.name)]
    if len(bs) != 1:
        ctx.fail(rule, "anchor-missing:" + rule, "", "anchor-missing: conversion body not found (%d candidates)" % len(bs))
        return None
    return bs[0]


def check(ctx):
    prog = ctx.prog
    # ---- C19/encode
    R = "C19/encode"
    eb = conv_body(ctx, lambda n: n.startswith("<passage_adapters_grpc::proto::Target as std::convert::From<&passage_adapters::Target>>"), R)
    if eb is not None:
        an = ctx.an(eb)
        r = flow.strip(return_expr(an))
        f = dict(r[2]) if r[0] == "agg" else {}
        pn, fs = param_path(f.get("identifier", ("unknown", "")))
        ctx.check(pn == "value" and fs == ["identifier"], R, "C19/encode/identifier", eb.loc,
                  reason="identifier <- %s" % render(f.get("identifier", ("unknown", "")), maxdepth=3), detail="identifier <- value.identifier")
        ad = flow.strip(f.get("address", ("unknown", "")))
        hok = pok = False
        if ad[0] == "agg" and ad[1].endswith("Option::Some"):
            a = flow.strip(ad[2][0][1])
            if a[0] == "agg" and a[1].endswith("Address::Address"):
                af = dict(a[2])
                h = flow.strip(af.get("hostname", ("unknown", "")))   # to_string looked through
                if h[0] == "call" and flow.short(h[1]).endswith("SocketAddr::ip"):
                    hok = param_path(h[3][0]) == ("value", ["address"])
                p = flow.strip(af.get("port", ("unknown", "")))
                if p[0] == "call" and flow.short(p[1]).endswith("SocketAddr::port"):
                    pok = param_path(p[3][0]) == ("value", ["address"])
                widen = find_all(af.get("port", ("unknown", "")), lambda x: x[0] == "cast")
                pok = pok and not widen
        ctx.check(hok, R, "C19/encode/hostname", eb.loc, reason="address.hostname <- %s; expected value.address.ip().to_string()" % render(ad, maxdepth=6),
                  detail="hostname <- value.address.ip().to_string()")
        ctx.check(pok, R, "C19/encode/port", eb.loc, reason="address.port <- %s; expected u32::from(value.address.port())" % render(ad, maxdepth=6),
                  detail="port <- u32::from(value.address.port())")
        m = f.get("meta", ("unknown", ""))
        mok = bool(calls_in(m, "Iterator::collect")) and bool(calls_in(m, "Iterator::map"))
        src = [c for c in calls_in(m, "iter")]
        mok = mok and any(param_path(c[3][0]) == ("value", ["meta"]) for c in src if c[3])
        ctx.check(mok, R, "C19/encode/meta-iter", eb.loc, reason="meta <- %s; expected value.meta.iter().map(..).collect()" % render(m, maxdepth=5),
                  detail="meta <- value.meta.iter().map(entry).collect()")
        for c in prog.children(eb.key):
            can = ctx.an(c)
            rr = flow.strip(return_expr(can))
            if rr[0] == "agg" and rr[1].endswith("MetaEntry::MetaEntry"):
                ff = dict(rr[2])
                k, v = flow.strip(ff["key"]), flow.strip(ff["value"])
                kp, vp = field_path(k), field_path(v)
                ok = kp[1][-1:] == ["0"] and vp[1][-1:] == ["1"] and kp[0][0] == "param" and vp[0][0] == "param"
                ctx.check(ok, R, "C19/encode/meta-entry", c.loc, reason="MetaEntry{key: %s, value: %s}; expected the map entry's key and value" % (render(k, maxdepth=3), render(v, maxdepth=3)),
                          detail="MetaEntry{key <- k, value <- v}")

    # ---- C19/decode
    RD = "C19/decode"
    db = conv_body(ctx, lambda n: "TryFrom<passage_adapters_grpc::proto::Target> for passage_adapters::Target" in n, RD)
    if db is not None:
        an = ctx.an(db)
        g = ctx.graph(db)
        r = return_expr(an)
        oks = find_all(r, lambda x: x[0] == "agg" and x[1].endswith("Result::Ok"))
        ctx.exact(RD, "Ok(Target{..}) in TryFrom<proto::Target>", len(oks), 1, db.loc)
        if len(oks) == 1:
            t = flow.strip(oks[0][2][0][1])
            f = dict(t[2]) if t[0] == "agg" else {}
            ctx.check(param_path(f.get("identifier", ("unknown", ""))) == ("value", ["identifier"]), RD, "C19/decode/identifier", db.loc,
                      reason="identifier <- %s" % render(f.get("identifier", ("unknown", "")), maxdepth=3), detail="identifier <- value.identifier")
            m = f.get("meta", ("unknown", ""))
            src = [c for c in calls_in(m, "IntoIterator::into_iter") + calls_in(m, "iter")]
            mok = bool(calls_in(m, "Iterator::collect")) and any(param_path(c[3][0]) == ("value", ["meta"]) for c in src if c[3])
            ctx.check(mok, RD, "C19/decode/meta-iter", db.loc, reason="meta <- %s" % render(m, maxdepth=5), detail="meta <- value.meta.into_iter().map(pair).collect()")
            addr = f.get("address", ("unknown", ""))
            verdict, why = classify_decoder(ctx, addr)
            ctx.check(verdict, RD, "C19/decode/address-grammar", db.loc,
                      reason=why, detail="address = SocketAddr::new(IpAddr::from_str(hostname)?, u16::try_from(port)?) (directly or via TryFrom<Address>)")
        for c in prog.children(db.key):
            can = ctx.an(c)
            rr = flow.strip(return_expr(can))
            if rr[0] == "agg" and rr[1] == "tuple" and len(rr[2]) == 2:
                k, v = field_path(rr[2][0][1]), field_path(rr[2][1][1])
                ctx.check(k[1][-1:] == ["key"] and v[1][-1:] == ["value"], RD, "C19/decode/meta-entry", c.loc,
                          reason="meta pair is (%s, %s)" % (render(rr[2][0][1], maxdepth=3), render(rr[2][1][1], maxdepth=3)), detail="(entry.key, entry.value)")
        # missing address -> Err
        none_err = False
        for b in db.blocks:
            if b.cleanup or b.term.kind != "switch" or db.is_noise(b.term):
                continue
            e, ls = an.switch_info(b.idx)
            x = flow.strip(e)
            pn, fs = param_path(x)
            if pn == "value" and fs == ["address"] and any("None" in l for l in ls.values()):
                for tb, l in ls.items():
                    if "None" in l:
                        reach = set(g.bb(n) for n in g.reachable(g.nodes_of_bb(tb)))
                        errs = [bb for bb in reach for s in db.blocks[bb].stmts if s.kind == "assign" and s.place.is_local() and s.place.local == 0
                                and s.rv.k == "agg" and s.rv.j.get("variant") == "Err"]
                        oksb = [bb for bb in reach for s in db.blocks[bb].stmts if s.kind == "assign" and s.place.is_local() and s.place.local == 0
                                and s.rv.k == "agg" and s.rv.j.get("variant") == "Ok"]
                        none_err = bool(errs) and not oksb
        ctx.check(none_err, RD, "C19/decode/missing-address-is-error", db.loc,
                  reason="a Target without address does not produce an error", detail="address None -> Err(FailedParse)")
    ab = conv_body(ctx, lambda n: "TryFrom<passage_adapters_grpc::proto::Address> for std::net::SocketAddr" in n, RD)
    if ab is not None:
        aan = ctx.an(ab)
        r = return_expr(aan)
        oks = find_all(r, lambda x: x[0] == "agg" and x[1].endswith("Result::Ok"))
        ok = False
        why = "TryFrom<Address> for SocketAddr returns %s" % render(r, maxdepth=5)
        if len(oks) == 1:
            ok, why = socketaddr_new_shape(oks[0][2][0][1], "value")
        ctx.check(ok, RD, "C19/decode/address-conversion", ab.loc, reason=why,
                  detail="TryFrom<Address>: SocketAddr::new(IpAddr::from_str(&hostname)?, u16::try_from(port)?)")

    # ---- C19/no-narrowing
    RN = "C19/no-narrowing"
    narrow = []
    n_casts = 0
    for k, b in prog.lib_bodies.items():
        if not k.startswith("passage_adapters_grpc::") or "::proto::adapter_client" in k or "_server::" in k:
            continue
        for blk in b.blocks:
            if blk.cleanup:
                continue
            for s in blk.stmts:
                if s.kind == "assign" and s.rv.k == "cast" and s.rv.j["ck"] == "IntToInt" and not b.is_noise(s):
                    n_casts += 1
                    frm, to = s.rv.j["from"], s.rv.j["to"]
                    if _bits(to) < _bits(frm):
                        narrow.append((k, frm, to, b.site(s)))
    ctx.sites_inspected += n_casts
    ctx.check(not narrow, RN, "C19/no-narrowing/grpc", "", reason="truncating integer casts in the gRPC adapters: %s" % narrow,
              detail="%d integer casts in passage-adapters-grpc, none narrowing" % n_casts)

    # ---- C19/request
    RR = "C19/request"
    sb = ctx.body(r"^passage_adapters_grpc::strategy_adapter::\{impl#\d+\}::select::\{closure#0\}::\{closure#0\}$", rule=RR)
    if sb is not None:
        request_fields(ctx, sb, "SelectRequest", RR, with_user=True)
        san = ctx.an(sb)
        r = return_expr(san)
        ok = bool(calls_in(r, "Option::transpose")) and bool(calls_in(r, "Option::map")) and bool(find_all(r, lambda x: x[0] == "fn" and x[1].endswith("TryInto::try_into")))
        tgt = [x for x in find_all(r, lambda x: x[0] == "field" and x[2] == "target")]
        ctx.check(ok and bool(tgt), RR, "C19/request/select-response", sb.loc,
                  reason="select returns %s; expected response.target.map(TryInto::try_into).transpose()" % render(r, maxdepth=5),
                  detail="select -> response.into_inner().target.map(try_into).transpose()")
    stb = ctx.body(r"^passage_adapters_grpc::status_adapter::\{impl#\d+\}::status::\{closure#0\}::\{closure#0\}$", rule=RR)
    if stb is not None:
        request_fields(ctx, stb, "StatusRequest", RR, with_user=False)
    dcb = ctx.body(r"^passage_adapters_grpc::discovery_adapter::\{impl#\d+\}::discover::\{closure#0\}::\{closure#0\}$", rule=RR)
    if dcb is not None:
        dan = ctx.an(dcb)
        r = return_expr(dan)
        ok = bool(calls_in(r, "Iterator::collect")) and bool(find_all(r, lambda x: x[0] == "fn" and x[1].endswith("TryInto::try_into"))) \
            and bool(find_all(r, lambda x: x[0] == "field" and x[2] == "targets"))
        ctx.check(ok, RR, "C19/request/discover-response", dcb.loc,
                  reason="discover returns %s; expected targets.into_iter().map(TryInto::try_into).collect::<Result<_,_>>()" % render(r, maxdepth=5),
                  detail="discover -> targets.into_iter().map(try_into).collect() (fails as a whole on the first error)")
        # collect into Result<Vec<_>, _>: the return type of the fn
        fn = prog.fns.get("passage_adapters_grpc::discovery_adapter::{impl#1}::discover")


def _bits(t):
    t = t.strip()
    if t in ("usize", "isize"):
        return 64
    digits = "".join(ch for ch in t if ch.isdigit())
    return int(digits) if digits else 0


def socketaddr_new_shape(e, param):
    x = flow.strip(e)
    if not (x[0] == "call" and flow.short(x[1]).endswith("SocketAddr::new")):
        return False, "address is built by %s, expected SocketAddr::new(IpAddr::from_str(..)?, u16::try_from(..)?)" % render(x, maxdepth=3)
    ip, port = flow.strip(x[3][0]), flow.strip(x[3][1])
    ipok = portok = False
    if ip[0] == "try":
        cs = calls_in(ip, "FromStr::from_str")
        for c in cs:
            if "std::net::IpAddr" in " ".join(c[5]) or "IpAddr" in (c[2] or ""):
                pn, fs = param_path(c[3][0])
                ipok = pn == param and fs[-1:] == ["hostname"]
    if port[0] == "try":
        cs = calls_in(port, "TryFrom::try_from")
        for c in cs:
            pn, fs = param_path(c[3][0])
            if "u16" in " ".join(c[5])[:8] or (c[2] and "for u16" in c[2]) or c[5][:1] == ("u16",):
                portok = pn == param and fs[-1:] == ["port"]
    if not ipok:
        return False, "IP is parsed by %s; expected IpAddr::from_str(&%s.hostname)?" % (render(ip, maxdepth=4), param)
    if not portok:
        return False, "port is converted by %s; expected u16::try_from(%s.port)? (error on > 65535)" % (render(port, maxdepth=4), param)
    return True, ""


def classify_decoder(ctx, addr):
    x = flow.strip(addr)
    # accepted idiom 1: via TryFrom<Address> for SocketAddr
    if x[0] == "try":
        cs = [c for c in calls_in(x) if flow.short(c[1]).endswith(("TryFrom::try_from", "TryInto::try_into"))]
        for c in cs:
            res = c[2] or ""
            if "SocketAddr" in res and "proto::Address" in res or ("std::net::SocketAddr" in " ".join(c[5]) and "proto::Address" in " ".join(c[5])):
                pn, fs = param_path(flow.strip(c[3][0]) if flow.strip(c[3][0])[0] != "field" else c[3][0])
                src = find_all(c[3][0], lambda y: y[0] == "field" and y[2] == "address")
                if src:
                    return True, ""
    # accepted idiom 2: inline SocketAddr::new(..)
    ok, why = socketaddr_new_shape(x, "raw_addr")
    if ok:
        return True, ""
    # the known-bad idiom: a formatted "host:port" string re-parsed as a SocketAddr
    fm = calls_in(x, "fmt::format")
    fs = [c for c in calls_in(x, "FromStr::from_str") if "SocketAddr" in " ".join(c[5]) or "SocketAddr" in (c[2] or "")]
    if fm and fs:
        return False, ("the decoder re-assembles \"{hostname}:{port}\" with format! and parses it with SocketAddr::from_str: that grammar "
                       "needs brackets around IPv6 addresses, but the encoder emits address.ip().to_string() without brackets — every IPv6 "
                       "target sent to a gRPC strategy/discovery service fails to parse back; also a port above 65535 is only rejected by the parser's grammar")
    return False, "unrecognised-implementation: address decoded by %s" % render(x, maxdepth=5)


def request_fields(ctx, body, reqname, R, with_user):
    an = ctx.an(body)
    aggs = []
    for b in body.blocks:
        if b.cleanup:
            continue
        for i, s in enumerate(b.stmts):
            if s.kind == "assign" and s.rv.k == "agg" and s.rv.j.get("adt", "").endswith("proto::" + reqname) and not body.is_noise(s):
                aggs.append((b.idx, an.rvalue_expr(s.rv, (b.idx, i), 0)))
    ctx.exact(R, "%s construction" % reqname, len(aggs), 1, body.loc)
    if len(aggs) != 1:
        return
    bb, e = aggs[0]
    f = dict(e[2])
    st = site(body, bb)

    def addr_ok(v, pname, via):
        v = flow.strip(v)
        if not (v[0] == "agg" and v[1].endswith("Option::Some")):
            return False
        a = flow.strip(v[2][0][1])
        if not (a[0] == "agg" and a[1].endswith("Address::Address")):
            return False
        af = dict(a[2])
        h, p = flow.strip(af["hostname"]), flow.strip(af["port"])
        if find_all(af["port"], lambda x: x[0] == "cast"):
            return False
        if via == "sock":
            return h[0] == "call" and flow.short(h[1]).endswith("SocketAddr::ip") and param_path(h[3][0]) == (pname, []) \
                and p[0] == "call" and flow.short(p[1]).endswith("SocketAddr::port") and param_path(p[3][0]) == (pname, [])
        return param_path(h) == (pname, ["0"]) and param_path(p) == (pname, ["1"])
    ctx.check(addr_ok(f.get("client_address", ("unknown", "")), "client_addr", "sock"), R, "C19/request/%s/client_address" % reqname, st,
              reason="client_address <- %s" % render(f.get("client_address", ("unknown", "")), maxdepth=6), detail="client_address <- client_addr.ip()/port()")
    ctx.check(addr_ok(f.get("server_address", ("unknown", "")), "server_addr", "tuple"), R, "C19/request/%s/server_address" % reqname, st,
              reason="server_address <- %s" % render(f.get("server_address", ("unknown", "")), maxdepth=6), detail="server_address <- server_addr.0/.1")
    pr = flow.strip(f.get("protocol", ("unknown", "")))
    pok = pr[0] == "cast" and param_path(pr[2]) == ("protocol", []) and _bits(pr[4]) >= _bits(pr[3])
    ctx.check(pok, R, "C19/request/%s/protocol" % reqname, st, reason="protocol <- %s" % render(pr, maxdepth=3), detail="protocol <- protocol (widening)")
    if with_user:
        ctx.check(param_path(f.get("username", ("unknown", ""))) == ("user", ["0"]), R, "C19/request/%s/username" % reqname, st,
                  reason="username <- %s" % render(f.get("username", ("unknown", "")), maxdepth=3), detail="username <- user.0")
        ctx.check(param_path(f.get("user_id", ("unknown", ""))) == ("user", ["1"]), R, "C19/request/%s/user_id" % reqname, st,
                  reason="user_id <- %s" % render(f.get("user_id", ("unknown", "")), maxdepth=3), detail="user_id <- user.1.to_string()")
        tg = f.get("targets", ("unknown", ""))
        it = [c for c in calls_in(tg, "iter") if c[3] and param_path(c[3][0]) == ("targets", [])]
        ok = bool(it) and bool(calls_in(tg, "Iterator::collect")) and bool(find_all(tg, lambda x: x[0] == "fn" and x[1].endswith(("Into::into", "From::from"))))
        bad = calls_in(tg, "Iterator::filter") + calls_in(tg, "Iterator::take") + calls_in(tg, "Iterator::skip") + calls_in(tg, "Iterator::rev")
        ctx.check(ok and not bad, R, "C19/request/%s/targets" % reqname, st,
                  reason="targets <- %s; expected targets.iter().map(Into::into).collect()" % render(tg, maxdepth=5),
                  detail="targets <- targets.iter().map(Into::into).collect()")

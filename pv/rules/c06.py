"""C06 — Packets are only exchanged in protocol order; status and login never mix (DESIGN §5 C06)."""
import json
import os

from ..lib import *  # noqa: F401,F403
from .. import events, flow
from ..core import VERIF

EXPLANATION = ("typestate rule: the event script of Connection::listen (receive/decode/send/adapter/crypto call sites, "
               "result assignments) is explored as the product CFG x protocol DFA (spec/c06_listen_dfa.json, written "
               "from the property) to a fixpoint; plus per-receive accepted-id sets vs <T as Packet>::ID, keep-alive "
               "only in configuration, branch guards on the handshake intent, status/pong content provenance, "
               "next-state decoding table")
DECIDED = [
    "every path of listen() emits sends/receives/adapter calls in an order accepted by the protocol DFA; nothing after Transfer/Disconnect/Pong; error exits send nothing",
    "each receive site accepts exactly the packet ids of its DFA state, each id equals <T as Packet>::ID of the decoded type, anything else returns Err(UnexpectedPacketId) without a reply",
    "keep-alive ticks (receive_packet(_, true), keep_alive()) occur only in the configuration state; tick-arm sends require keep_alive = true",
    "status branch taken iff next_state == Status; Status Response body = JSON of the status adapter's answer for (client address, handshake host/port, protocol); Pong echoes the Ping payload",
    "TryFrom<VarInt> for State accepts exactly {1,2,3}",
]
UNDECIDED = []
TRUSTED = ["tokio::select! expansion", "serde_json::to_string"]

R = "C06/script"
LISTEN = r"^passage_protocol::connection::\{impl#\d+\}::listen::\{closure#0\}::\{closure#0\}$"
RECV = r"^passage_protocol::connection::\{impl#\d+\}::receive_packet::\{closure#0\}::\{closure#0\}$"
KEEP = r"^passage_protocol::connection::\{impl#\d+\}::keep_alive::\{closure#0\}$"


def spec(name):
    with open(os.path.join(VERIF, "spec", name)) as fh:
        return json.load(fh)


def packet_ids(prog):
    return {c["impl_self"]: c.get("int") for c in prog.consts.values()
            if c.get("impl_trait") == "passage_packets::Packet" and c.get("item") == "ID"}


def recv_sites(ctx, body):
    """for each receive_packet call: (bb, keep_alive, {id: (T, arm_bb)}, otherwise_bb, switch_bb)"""
    an = ctx.an(body)
    out = []
    sw = []
    for b in body.blocks:
        if b.cleanup or b.term.kind != "switch" or body.is_noise(b.term):
            continue
        info = an.switch_info(b.idx)
        e = info[0]
        if e[0] == "field" and e[2] == "0":
            inner = flow.strip(e[1])
            if inner[0] == "try" and flow.strip(inner[1])[0] == "await":
                c = flow.strip(flow.strip(inner[1])[1])
                if c[0] == "call" and flow.short(c[1]).endswith("Connection::receive_packet"):
                    sw.append((b.idx, c[4]))
    for bb, t in calls(body, "Connection::receive_packet"):
        ka = t.args[1].const_bool()
        if ka is None:
            # the mode spelled with another two-valued type (listen_common.KeepAliveMode): classified by what it enables
            from .listen_common import KeepAliveMode
            km = getattr(ctx, "_keepalive_mode", None) or KeepAliveMode(ctx)
            ctx._keepalive_mode = km
            lab = km.classify(ctx.an(body).operand_expr(t.args[1], (bb, "term")))
            ka = {"true": True, "false": False}.get(lab)
        sws = [s for s, site_bb in sw if site_bb == bb]
        if len(sws) != 1:
            out.append((bb, ka, None, None, None))
            continue
        sb = sws[0]
        term = body.blocks[sb].term
        arms = {}
        for v, tb in term.arms:
            # first read_from_buffer reachable straight from the arm
            cur = tb
            T = None
            for _ in range(6):
                blk = body.blocks[cur]
                if blk.term.kind == "call" and dname(blk.term).endswith("ReadPacket::read_from_buffer"):
                    T = garg(blk.term, 0)
                    break
                ss = blk.term.successors()
                if len(ss) != 1:
                    break
                cur = ss[0]
            arms[v] = (T, cur)
        out.append((bb, ka, arms, term.otherwise, sb))
    return out


def run_dfa(ctx, body, dfa_spec, rule, label, graph=None):
    ev = events.extract(ctx, body)
    dfa = events.Dfa(dfa_spec)
    g = graph or ctx.graph(body)
    viol, visited, trans, states = events.explore(g, ev, dfa)
    nev = sum(len(v) for v in ev.values())
    ctx.sites_inspected += nev
    for e, st, s, wit in viol:
        ctx.fail(rule, "%s/%s@%s" % (rule, e, st), s,
                 "event `%s` is not allowed in protocol state %s of %s" % (e, st, label),
                 witness=["%s @ %s" % x for x in wit[-12:]])
    if not viol:
        ctx.ok(rule, "%s/%s-dfa" % (rule, label), body.loc,
               "%s: %d events, %d product nodes, %d transitions, %d DFA states reached, no rejected event"
               % (label, nev, visited, trans, len(states)))
    unreached = [s for s in dfa.states if s not in states and s != dfa.end]
    ctx.check(not unreached, rule, "%s/%s-dfa-coverage" % (rule, label), body.loc,
              reason="anchor-missing: protocol states never reached by %s: %s (a step of the script disappeared)" % (label, unreached),
              detail="all %d DFA states reached" % len(dfa.states))
    return ev, dict(events.explore.last_at)


def check(ctx):
    prog = ctx.prog
    body = ctx.body(LISTEN, rule=R)
    if body is None:
        return
    an = ctx.an(body)
    g = ctx.graph(body)
    dspec = spec("c06_listen_dfa.json")
    ev, at = run_dfa(ctx, body, dspec, R, "listen")
    all_events = [e for v in ev.values() for e in v]
    ctx.floor(R, "receive_packet sites in listen", sum(1 for e in all_events if e[1].startswith("rp:")), 9, body.loc)
    ctx.floor(R, "send_packet sites in listen", sum(1 for e in all_events if e[1].startswith("send:")), 10, body.loc)

    # ---- C06/single-expected
    RS = "C06/single-expected"
    ids = packet_ids(prog)
    ctx.floor(RS, "impl Packet ID constants", len(ids), 41)
    dfa = events.Dfa(dspec)
    groups = {}
    for bb, ka, arms, otherwise, sb in recv_sites(ctx, body):
        st = site(body, bb)
        if arms is None:
            ctx.fail(RS, "C06/single-expected/shape@%s" % st.split(":")[-1], st,
                     "unrecognised-implementation: no id switch found for this receive_packet call")
            continue
        states = at.get((bb, "rp:%s" % str(ka).lower()), set())
        expect = set()
        for s in states:
            nxt = dfa.step(s, "rp:%s" % str(ka).lower())
            for e in dfa.states.get(nxt, {}):
                if e.startswith("recv:"):
                    expect.add(e[5:])
        got = set(events.packet_short(T) for T, _ in arms.values())
        key = "C06/single-expected/" + "+".join(sorted(got)) if got else "C06/single-expected/?@%s" % sorted(expect)
        # several sites may share one DFA state (the first packet after the handshake is a Status Request
        # on one branch and a Login Start on the other): each site must accept a subset, the union must
        # be the whole expected set, and outside the configuration state each site accepts one packet
        groups.setdefault(frozenset(expect), set()).update(got)
        ctx.check(bool(got) and got <= expect, RS, key + "/set", st,
                  reason="receive site accepts %s, protocol state expects %s" % (sorted(got), sorted(expect)),
                  detail="accepts %s of expected %s (keep_alive=%s)" % (sorted(got), sorted(expect), ka))
        if ka is not True:
            ctx.check(len(got) == 1, RS, key + "/singleton", st,
                      reason="a handshake/status/login receive accepts more than one packet: %s" % sorted(got),
                      detail="single expected packet")
        for v, (T, abb) in sorted(arms.items()):
            ctx.check(T is not None and ids.get(T) == v, RS, "%s/id-%s" % (key, events.packet_short(T)), st,
                      reason="arm for id %s decodes %s whose Packet::ID is %s" % (v, T, ids.get(T)),
                      detail="id %s -> %s" % (v, events.packet_short(T)))
        # fall-through returns UnexpectedPacketId
        oev = ev.get(otherwise, [])
        ctx.check(any(e[1] == "ret:err:UnexpectedPacketId" for e in oev), RS, key + "/fallthrough", st,
                  reason="the default arm of the id match does not return Err(UnexpectedPacketId)",
                  detail="default arm returns Err(UnexpectedPacketId)")

    for exp, gotu in groups.items():
        ctx.check(set(exp) == gotu, RS, "C06/single-expected/union/" + "+".join(sorted(exp)), body.loc,
                  reason="packets expected by the protocol but accepted nowhere: %s" % sorted(set(exp) - gotu),
                  detail="union of accepted sets = expected set %s" % sorted(exp))

    # ---- C06/keepalive-only-in-config (the DFA allows rp:true only in CFG; here: helper bodies)
    RK = "C06/keepalive-only-in-config"
    kb = ctx.body(KEEP, rule=RK)
    if kb is not None:
        run_dfa(ctx, kb, spec("c06_keepalive_dfa.json"), RK, "keep_alive")
    rb = ctx.body(RECV, rule=RK)
    if rb is not None:
        ran = ctx.an(rb)
        from .listen_common import KeepAliveMode
        km = getattr(ctx, "_keepalive_mode", None) or KeepAliveMode(ctx)
        ctx._keepalive_mode = km
        gt = km.on()
        ctx.check(gt is not None and km.off() is not None, RK, "C06/keepalive-only-in-config/mode-parameter", rb.loc,
                  reason="receive_packet's keep-alive parameter is not a two-valued mode of which exactly one value enables the Keep Alive send (type %s, enabling %s)" % (km.kind, sorted(map(str, km.enabling))),
                  detail="receive_packet(mode): one value sends Keep Alives on ticks, the other never does")
        if gt is None or km.off() is None:
            return
        run_dfa(ctx, rb, spec("c06_recv_dfa.json"), RK, "receive_packet[keep_alive=true]", graph=gt)
        gf = km.off()
        rev = events.extract(ctx, rb)
        send_bbs = [bb for bb, es in rev.items() if any(e[1].startswith(("send:", "call:localize")) for e in es)]
        reach = set(gf.bb(n) for n in gf.reachable())
        bad = [bb for bb in send_bbs if bb in reach]
        ctx.floor(RK, "send/localize sites in receive_packet", len(send_bbs), 3, rb.loc)
        ctx.check(not bad, RK, "C06/keepalive-only-in-config/tick-sends-need-flag", rb.loc,
                  reason="with keep_alive = false a send is reachable in receive_packet at %s" % [site(rb, b) for b in bad],
                  detail="no send reachable in receive_packet when keep_alive = false (%d send sites)" % len(send_bbs))
    # who may call receive_packet(_, true)/keep_alive: only listen (configuration state) and keep_alive itself
    callers = []
    for k, b in prog.lib_bodies.items():
        if not k.startswith("passage_protocol::"):
            continue
        for bb, t in calls(b, ("Connection::receive_packet", "Connection::keep_alive")):
            callers.append((k, dname(t).split("::")[-1]))
    okc = all(k.startswith("passage_protocol::connection::{impl#0}::listen") or
              k.startswith("passage_protocol::connection::{impl#0}::keep_alive") for k, _ in callers)
    ctx.check(okc, RK, "C06/keepalive-only-in-config/who-may-call", "",
              reason="receive_packet/keep_alive called outside listen/keep_alive: %s" % callers,
              detail="%d call sites, all in listen()/keep_alive()" % len(callers))

    # ---- C06/branch-guard
    RB = "C06/branch-guard"
    hs = [bb for bb, t in calls(body, "ReadPacket::read_from_buffer") if (garg(t, 0) or "").endswith("HandshakePacket")]
    guards = []
    for b in body.blocks:
        if b.cleanup or b.term.kind != "switch" or body.is_noise(b.term):
            continue
        info = an.switch_info(b.idx)
        e = info[0]
        if e[0] == "call" and flow.short(e[1]).endswith("PartialEq::eq"):
            a0, a1 = flow.strip(e[3][0]), flow.strip(e[3][1])
            r0, f0 = field_path(a0)
            if f0[-1:] == ["next_state"] and a1[0] == "agg" and a1[1].endswith("State::Status"):
                guards.append((b.idx, info[1]))
    ctx.exact(RB, "`next_state == State::Status` guard in listen", len(guards), 1, body.loc)
    if len(guards) == 1:
        gb, labels = guards[0]
        t_edges = [(gb, tb) for tb, ls in labels.items() if "true" in ls]
        f_edges = [(gb, tb) for tb, ls in labels.items() if "false" in ls]
        for bb, es in ev.items():
            for pos, e, st in es:
                if e in ("recv:status::serverbound::StatusRequest", "call:status", "send:status::clientbound::StatusResponse",
                         "send:status::clientbound::Pong"):
                    okk, p = g.must_pass(bb, cut_edges=t_edges)
                    ctx.check(okk, RB, "C06/branch-guard/status-side/" + e, st,
                              reason="%s is reachable without next_state == Status" % e,
                              detail="%s only on the next_state == Status edge" % e)
                if e == "recv:login::serverbound::LoginStart" or e.startswith("send:login::") or e.startswith("send:configuration::"):
                    okk, p = g.must_pass(bb, cut_edges=f_edges)
                    ctx.check(okk, RB, "C06/branch-guard/login-side/" + e, st,
                              reason="%s is reachable on a Status-intent connection" % e,
                              detail="%s only on the next_state != Status edge" % e)

    # ---- C06/status-content
    RC = "C06/status-content"
    for bb, t in calls(body, "Connection::send_packet"):
        T = t.callee["gargs"][-1]
        if T.endswith("StatusResponsePacket"):
            pk = flow.strip(arg(an, bb, t, 1))
            bodyf = dict(pk[2]).get("body") if pk[0] == "agg" else None
            ok = False
            why = "StatusResponse.body is %s" % (render(bodyf, maxdepth=4) if bodyf else "?")
            if bodyf is not None:
                x = flow.strip(bodyf)
                if x[0] == "try":
                    c = flow.strip(x[1])
                    if c[0] == "call" and flow.short(c[1]).endswith("serde_json::to_string"):
                        s = flow.strip(c[3][0])
                        if s[0] == "try" and flow.strip(s[1])[0] == "await":
                            sc = flow.strip(flow.strip(s[1])[1])
                            if sc[0] == "call" and flow.short(sc[1]).endswith("StatusAdapter::status"):
                                ok = True
                                a = sc[3]
                                ok1 = self_field(a[1]) == "client_address"
                                tup = flow.strip(a[2])
                                hp = [field_path(v)[1][-1:] for _, v in tup[2]] if tup[0] == "agg" else []
                                ok2 = hp == [["server_address"], ["server_port"]]
                                ok3 = field_path(a[3])[1][-1:] == ["protocol_version"]
                                ctx.check(ok1 and ok2 and ok3, RC, "C06/status-content/status-args", site(body, sc[4]),
                                          reason="status() is asked with (%s, %s, %s); expected (self.client_address, (handshake.server_address, server_port), handshake.protocol_version)"
                                                 % (render(a[1], maxdepth=3), render(a[2], maxdepth=3), render(a[3], maxdepth=3)),
                                          detail="status(self.client_address, (handshake.server_address, .server_port), handshake.protocol_version)")
            ctx.check(ok, RC, "C06/status-content/body", site(body, bb), reason=why,
                      detail="body = to_string(&status(..).await?)?")
        if T.endswith("status::clientbound::PongPacket"):
            pk = flow.strip(arg(an, bb, t, 1))
            pay = dict(pk[2]).get("payload") if pk[0] == "agg" else None
            ok = False
            if pay is not None:
                root, fs = field_path(pay)
                if fs == ["payload"] and root[0] == "try":
                    c = flow.strip(flow.strip(root[1])[1]) if flow.strip(root[1])[0] == "await" else None
                    if c and c[0] == "call" and "status::serverbound::PingPacket" in (c[5][0] if c[5] else ""):
                        ok = True
            ctx.check(ok, RC, "C06/status-content/pong-echo", site(body, bb),
                      reason="Pong.payload is %s, expected the payload of the received Ping" % (render(pay, maxdepth=4) if pay else "?"),
                      detail="Pong.payload = <Ping>.payload")

    # ---- C06/next-state
    RN = "C06/next-state"
    tb = ctx.body(r"^passage_packets::\{impl#\d+\}::try_from$", required=False)
    tbs = [b for b in prog.find_bodies(r"^passage_packets::\{impl#\d+\}::try_from$")
           if "State" in b.name and "ResourcePack" not in b.name]
    sb = [b for b in tbs if b.name.startswith("<passage_packets::State as")]
    ctx.exact(RN, "TryFrom<VarInt> for State", len(sb), 1)
    if len(sb) == 1:
        tbl = enum_decode_table(ctx, sb[0])
        ctx.check(tbl == {1: "Status", 2: "Login", 3: "Transfer"}, RN, "C06/next-state/table", sb[0].loc,
                  reason="State decoding table is %s, expected {1: Status, 2: Login, 3: Transfer} and everything else rejected" % tbl,
                  detail="State::try_from: %s, other -> Err" % tbl)
    hb = ctx.body(r"^passage_packets::handshake::serverbound::\{impl#\d+\}::read_from_buffer::\{closure#0\}::\{closure#0\}$", rule=RN)
    if hb is not None:
        han = ctx.an(hb)
        r = return_expr(han)
        aggs = [x for x in find_all(r, lambda x: x[0] == "agg" and x[1].endswith("HandshakePacket::HandshakePacket"))]
        ok = False
        if aggs:
            ns = dict(aggs[0][2]).get("next_state")
            x = flow.strip(ns) if ns else ("unknown",)
            if x[0] == "try":
                c = flow.strip(x[1])
                # the field has type State, so either spelling resolves to `TryFrom<VarInt> for State`
                if c[0] == "call" and flow.short(c[1]).endswith(("TryInto::try_into", "TryFrom::try_from")) and calls_in(c, "read_varint"):
                    ok = True
        ctx.check(ok, RN, "C06/next-state/routed", hb.loc,
                  reason="HandshakePacket.next_state is not decoded through State::try_from with `?`",
                  detail="next_state = read_varint().await?.try_into()?")


def enum_decode_table(ctx, body):
    """{int: Variant} of a TryFrom<VarInt> body (path enumeration: any mix of match / if / early return)"""
    from .. import codec
    return codec.decode_table(ctx, body)

"""C12 — Client-chosen names cannot alter the session server request (DESIGN §5 C12). Taint rule."""
from ..lib import *  # noqa: F401,F403
from .. import flow

EXPLANATION = ("taint rule over passage-adapters-http: no non-constant text may reach the URL argument of a "
               "reqwest request through format_args!/String concatenation; client text may only enter through "
               "an encoding API (Url::parse_with_params, query_pairs_mut().append_pair, RequestBuilder::query); "
               "exactly two parameters username=<claimed name>, serverId=<C11 hash>; response gating")
DECIDED = [
    "no raw interpolation of client-controlled (or any non-constant) text into the request URL",
    "constant base https://sessionserver.mojang.com/session/minecraft/hasJoined with exactly two encoded pairs (username, claimed name) and (serverId, hash)",
    "profile = json(error_for_status(send())) with every Err edge mapped to an adapter error",
]
UNDECIDED = ["the HTTP stack (reqwest/url) itself"]
TRUSTED = ["url::Url::parse_with_params / form_urlencoded percent-encode each key and value"]

BASE = "https://sessionserver.mojang.com/session/minecraft/hasJoined"
ENCODERS = ("Url::parse_with_params", "RequestBuilder::query", "Serializer::append_pair", "append_pair")


def _const_strs(e):
    return [x[2] for x in find_all(e, lambda x: x[0] == "const" and isinstance(x[2], str))]


def check(ctx):
    R = "C12/no-raw-interpolation"
    mb = ctx.body(r"^passage_adapters_http::mojang_adapter::\{impl#\d+\}::authenticate::\{closure#0\}$", rule=R)
    if mb is None:
        return
    an = ctx.an(mb)
    reqs = calls(mb, ("reqwest::Client::get", "reqwest::Client::request", "reqwest::Client::post",
                      "reqwest::Client::head", "reqwest::Client::put"))
    ctx.floor(R, "reqwest request construction in MojangAdapter::authenticate", len(reqs), 1, mb.loc)
    gets = [x for x in reqs if cname(x[1]).endswith("Client::get")]
    ctx.check(len(gets) == len(reqs), R, "C12/method-get", mb.loc,
              reason="hasJoined must be a GET request", detail="request method GET")
    for bb, t in reqs:
        url = arg(an, bb, t, len(t.args) - 1)
        # 1. formatting machinery with non-constant arguments feeding the URL
        fmts = calls_in(url, "fmt::format") + calls_in(url, "alloc::fmt::format")
        raw = []
        for f in fmts:
            for a in calls_in(f, "Argument::new_display") + calls_in(f, "Argument::new_debug"):
                v = flow.strip(a[3][0])
                if v[0] != "const":
                    raw.append(render(v, maxdepth=3))
        concat = calls_in(url, "String::push_str") + calls_in(url, "Add::add") + calls_in(url, "concat") \
            + calls_in(url, "join")
        enc = [c for c in calls_in(url) if any(flow.short(c[1]).endswith(s) for s in ENCODERS)]
        ok = not raw and not concat
        ctx.check(ok, R, "C12/no-raw-interpolation/mojang-url", site(mb, bb),
                  reason="request URL is assembled by raw string formatting of non-constant values [%s]; client "
                         "text (the claimed user name) reaches the URL unencoded" % ", ".join(raw + [render(c, maxdepth=1) for c in concat]),
                  detail="URL argument contains no format!/concat of non-constant text")
        # 2. parameters
        RP = "C12/params"
        if enc:
            pw = [c for c in enc if flow.short(c[1]).endswith("Url::parse_with_params")]
            if pw:
                c = pw[0]
                base = flow.strip(c[3][0])
                ctx.check(base[0] == "const" and base[2] == BASE, RP, "C12/params/base", site(mb, bb),
                          reason="request base is %s, expected constant %s" % (render(base, maxdepth=2), BASE),
                          detail="constant base URL")
                pairs = flow.strip(c[3][1])
                items = []
                if pairs[0] == "agg":
                    for _, pe in pairs[2]:
                        pe = flow.strip(pe)
                        if pe[0] == "agg" and len(pe[2]) == 2:
                            items.append((flow.strip(pe[2][0][1]), flow.strip(pe[2][1][1])))
                keys = [k[2] if k[0] == "const" else None for k, _ in items]
                ctx.check(keys == ["username", "serverId"] or sorted(map(str, keys)) == ["serverId", "username"], RP,
                          "C12/params/keys", site(mb, bb),
                          reason="query keys are %s, expected exactly username and serverId" % keys,
                          detail="query keys %s" % keys)
                for k, v in items:
                    if k[0] != "const":
                        continue
                    if k[2] == "username":
                        pn, fs = param_path(v)
                        good = pn == "user" and fs == ["0"]
                        ctx.check(good, RP, "C12/params/username-value", site(mb, bb),
                                  reason="username value is %s, expected the claimed name user.0" % render(v, maxdepth=4),
                                  detail="username = user.0 (claimed name)")
                    if k[2] == "serverId":
                        good = v[0] == "call" and flow.short(v[1]).endswith("minecraft_hash")
                        ctx.check(good, RP, "C12/params/serverid-value", site(mb, bb),
                                  reason="serverId value is %s, expected minecraft_hash(..)" % render(v, maxdepth=3),
                                  detail="serverId = minecraft_hash(..)")
            else:
                ctx.fail(RP, "C12/params/shape", site(mb, bb),
                         "unrecognised-implementation: parameters are encoded by %s; only Url::parse_with_params is "
                         "modelled in detail" % [flow.short(c[1]) for c in enc])
        elif ok:
            ctx.fail(RP, "C12/params/shape", site(mb, bb),
                     "unrecognised-implementation: no encoding API found on the URL path")
        # the base constant must still be the hasJoined endpoint in any case
        strs = _const_strs(url)
        texts = [x[2] for x in find_all(url, lambda x: x[0] == "const" and isinstance(x[2], str))]
        alltxt = " ".join(str(s) for s in texts)
        ctx.check("sessionserver.mojang.com/session/minecraft/hasJoined" in alltxt, RP, "C12/params/endpoint",
                  site(mb, bb), reason="the hasJoined endpoint constant does not reach the request URL",
                  detail="endpoint constant present")

    # ---- response gating
    RR = "C12/response"
    rets = return_expr(an)
    oks = find_all(rets, lambda x: x[0] == "agg" and x[1].endswith("Result::Ok"))
    succ = [o[2][0][1] for o in oks]
    if not succ:
        # the Result of the last step returned as it is (`.json().await.map_err(..)` without `?` + `Ok(..)`)
        leaves = flow.strip(rets)
        leaves = leaves[1] if leaves[0] == "phi" else (leaves,)
        for l in leaves:
            l = flow.strip(l)
            if l[0] == "call" and flow.short(l[1]).split("::")[-1] == "map_err":
                succ.append(("try", l))
    ctx.exact(RR, "Ok(profile) construction", len(succ), 1, mb.loc)
    for v in succ:
        chain = []
        x = v
        for _ in range(40):
            x = flow.strip(x)
            if x[0] in ("try", "await"):
                chain.append(x[0])
                x = x[1]
            elif x[0] == "call":
                n = flow.short(x[1]).split("::")[-1]
                chain.append(n)
                if not x[3]:
                    break
                x = x[3][0]
            else:
                break
        want = ["try", "map_err", "await", "json", "try", "map_err", "error_for_status", "try", "map_err", "await", "send"]
        ctx.check(chain[:len(want)] == want, RR, "C12/response/chain", mb.loc,
                  reason="profile is produced by %s; expected json(error_for_status(send())) with `?` after each step" % chain,
                  detail="profile = " + " <- ".join(chain[:len(want)]))
    # every map_err closure builds an adapter error (FailedFetch / FailedParse)
    cl = ctx.prog.children(mb.key)
    kinds = []
    for c in cl:
        can = ctx.an(c)
        r = return_expr(can)
        if r[0] == "agg":
            kinds.append(r[1].split("::")[-1])
    ctx.check(kinds.count("FailedFetch") >= 2 and kinds.count("FailedParse") >= 1, RR, "C12/response/error-mapping",
              mb.loc, reason="map_err closures build %s; expected FailedFetch, FailedFetch, FailedParse" % kinds,
              detail="error closures build %s" % kinds)

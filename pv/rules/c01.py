"""C01 — Only an authenticated identity is ever admitted (DESIGN §5 C01)."""
from ..lib import *  # noqa: F401,F403
from .. import flow
from .listen_common import Listen, GRANTS, classify_identity, leaf_values

EXPLANATION = ("must-pass-through (cut) queries on the flag-refined CFG of Connection::listen: every grant (Login "
               "Success, Store Cookie, Transfer, discover/filter/select) is dominated by the true edge of "
               "verify_token and, when should_authenticate is true, by the Ok edge of authenticate; value provenance "
               "of token, shared secret, public key and of every identity use under flag-refined reaching definitions")
DECIDED = [
    "verify_token(generate_token() of this connection, decrypt(KEY_PAIR.0, response.verify_token)?) == true dominates every grant; the false edge returns Err without sending",
    "verify_token compares whole operands; generate_token fills all 32 bytes from SysRng with `?`",
    "with should_authenticate = true the Ok edge of AuthenticationAdapter::authenticate dominates every grant; arguments: decrypted shared secret, ENCODED_PUB, self.client_address, handshake host/port/protocol",
    "the secret given to authenticate is the secret that keys the cipher (apply_encryption -> create_ciphers(key = iv = secret)); Login Success only after apply_encryption succeeded",
    "at every identity use (Login Success, filter/select user, AuthCookie) no reaching definition comes from the Login Start claim or the empty initialiser; flag = true: only authenticate's profile; flag = false: only the verified cookie",
    "LoginSuccess / StoreCookie / Transfer are sent only from listen()",
]
UNDECIDED = ["RSA/PKCS#1 decryption, SysRng and the configured adapter themselves", "side channels"]
TRUSTED = ["rsa::RsaPrivateKey::decrypt", "rand::rngs::SysRng", "array == slice compares all elements"]


def check(ctx):
    L = Listen(ctx, "C01/token-gate")
    if not L.ok:
        return
    body, an, g = L.body, L.an, L.g
    R = "C01/token-gate"
    grants = L.sites(GRANTS)
    ctx.floor(R, "grant sites (LoginSuccess, StoreCookie x2, Transfer, discover, filter, select)", len(grants), 7, body.loc)

    # ---- the verify_token switch
    vts = L.call("crypto::verify_token")
    ctx.exact(R, "crypto::verify_token call in listen", len(vts), 1, body.loc)
    true_edges, false_edges, vt_bb = [], [], None
    if len(vts) == 1:
        vt_bb, vt = vts[0]
        for b in body.blocks:
            if b.cleanup or b.term.kind != "switch" or body.is_noise(b.term):
                continue
            info = an.switch_info(b.idx)
            e = flow.strip(info[0])
            if e[0] == "call" and e[4] == vt_bb and flow.short(e[1]).endswith("crypto::verify_token"):
                true_edges += [(b.idx, tb) for tb, ls in info[1].items() if "true" in ls]
                false_edges += [(b.idx, tb) for tb, ls in info[1].items() if "false" in ls]
        ctx.check(bool(true_edges) and bool(false_edges), R, "C01/token-gate/switch", site(body, vt_bb),
                  reason="the result of verify_token is not branched on", detail="verify_token result guards a branch")
        for bb, e, st in grants:
            okk, p = g.must_pass(bb, cut_edges=true_edges)
            ctx.check(okk and bool(true_edges), R, "C01/token-gate/" + e, st,
                      reason="%s is reachable without passing the `verify_token(..) == true` edge" % e,
                      detail="%s dominated by verify_token == true" % e,
                      witness=[site(body, x) for x in (p or [])[-8:]])
        # false edge: only an error return, no event other than ret:err
        bad = []
        starts = []
        for (sb, tb) in false_edges:
            starts += g.nodes_of_bb(tb)
        reach = set(g.bb(n) for n in g.reachable(starts)) if starts else set()
        for bb, es in L.ev.items():
            if bb in reach:
                for pos, e, st in es:
                    if not e.startswith("ret:err"):
                        bad.append((e, st))
        ctx.check(bool(false_edges) and not bad, R, "C01/token-gate/false-edge-ends", site(body, vt_bb),
                  reason="after a failed verify-token comparison the handler continues: %s" % bad[:4],
                  detail="false edge reaches only `return Err`")
        # operands
        a0 = arg(an, vt_bb, vt, 0)
        a1 = arg(an, vt_bb, vt, 1)
        o0 = [c for c in calls_in(a0, "crypto::generate_token")]
        ok0 = flow.strip(a0)[0] == "try" and len(o0) == 1
        ctx.check(ok0, R, "C01/token-gate/expected-is-fresh-token", site(body, vt_bb),
                  reason="expected token is %s, not this connection's generate_token()?" % render(a0, maxdepth=4),
                  detail="expected = generate_token()? of this body")
        x = flow.strip(a1)
        ok1 = False
        if x[0] == "try":
            c = flow.strip(x[1])
            if c[0] == "call" and flow.short(c[1]).endswith("crypto::decrypt"):
                k = flow.strip(c[3][0])
                root, fs = field_path(k)
                v = flow.strip(c[3][1])
                vr, vf = field_path(v)
                vr = flow.strip(vr)
                src = None
                if vr[0] == "try":
                    cc = flow.strip(flow.strip(vr[1])[1]) if flow.strip(vr[1])[0] == "await" else None
                    if cc and cc[0] == "call" and cc[5] and cc[5][0].endswith("EncryptionResponsePacket"):
                        src = cc
                keyok = fs == ["0"] and _is_static(root, "crypto::KEY_PAIR")
                ok1 = keyok and src is not None and vf == ["verify_token"]
        ctx.check(ok1, R, "C01/token-gate/actual-is-decrypted-response", site(body, vt_bb),
                  reason="actual token is %s; expected decrypt(&KEY_PAIR.0, &<EncryptionResponse>.verify_token)?" % render(a1, maxdepth=6),
                  detail="actual = decrypt(KEY_PAIR.0, EncryptionResponse.verify_token)?")
        # the token sent to the client is the same generate_token() value
        ers = L.send_agg("EncryptionRequestPacket")
        ctx.exact(R, "EncryptionRequest send", len(ers), 1, body.loc)
        for bb, t, agg in ers:
            f = dict(agg[2]) if agg[0] == "agg" else {}
            tok = f.get("verify_token")
            same = tok is not None and o0 and [c for c in calls_in(tok, "crypto::generate_token") if c[4] == o0[0][4]]
            ctx.check(bool(same), R, "C01/token-gate/issued-token-is-compared-token", site(body, bb),
                      reason="EncryptionRequest.verify_token is %s, not the token later compared" % (render(tok, maxdepth=3) if tok else "?"),
                      detail="EncryptionRequest.verify_token = the compared token")
            pk = f.get("public_key")
            ctx.check(pk is not None and _has_static(pk, "crypto::ENCODED_PUB"), R, "C01/token-gate/public-key", site(body, bb),
                      reason="EncryptionRequest.public_key is %s, expected ENCODED_PUB" % (render(pk, maxdepth=3) if pk else "?"),
                      detail="EncryptionRequest.public_key = ENCODED_PUB")
    # both decrypt results consumed through `?`
    for bb, t in L.call("crypto::decrypt"):
        te = try_edges(an, bb)
        ctx.check(len(te) == 1, R, "C01/token-gate/decrypt-checked@" + ("secret" if "shared_secret" in render(arg(an, bb, t, 1)) else "token"),
                  site(body, bb), reason="decrypt result is not consumed through `?`", detail="decrypt(..)? (Err returns)")

    # ---- C01/token-compare
    RC = "C01/token-compare"
    vb = ctx.body(r"^passage_protocol::crypto::verify_token$", rule=RC)
    if vb is not None:
        van = ctx.an(vb)
        r = flow.strip(return_expr(van))
        ok = False
        if r[0] == "call" and (flow.short(r[1]).endswith(("PartialEq::eq", "ConstantTimeEq::ct_eq"))):
            # whole-value views (`as_slice()`, `&x[..]`, `as_ref()`) are the operand itself; a sub-range is not
            def whole(a):
                for _ in range(6):
                    a = flow.strip(a, extra=("as_slice", "as_mut_slice", "as_ref", "borrow"))
                    if a[0] == "call" and flow.short(a[1]).endswith("Index::index") and len(a[3]) == 2 \
                            and flow.strip(a[3][1])[0] == "agg" and flow.strip(a[3][1])[1].endswith("RangeFull"):
                        a = a[3][0]
                        continue
                    if a[0] == "cast":
                        a = a[2]
                        continue
                    break
                return a
            ops = [whole(a) for a in r[3]]
            ps = sorted(str(param_name(a)) for a in ops)
            ok = ps == ["actual", "expected"] and all(field_path(a)[1] == [] for a in ops)
        ctx.check(ok, RC, "C01/token-compare/whole-operands", vb.loc,
                  reason="verify_token returns %s; expected a whole-operand equality of (expected, actual)" % render(r, maxdepth=4),
                  detail="verify_token = eq(expected, actual) over whole operands")
        # a switch on a literal (`if false { .. }` left by a statically disabled log level) is not a data-dependent branch
        nsw = sum(1 for b in vb.blocks if b.term.kind == "switch" and not b.cleanup and not vb.is_noise(b.term)
                  and flow.strip(van.switch_info(b.idx)[0])[0] != "const" and not diagnostic_only_branch(vb, b.idx))
        ctx.check(nsw == 0, RC, "C01/token-compare/no-branches", vb.loc,
                  reason="unrecognised-implementation: verify_token has %d branches" % nsw, detail="straight-line")
    gb = ctx.body(r"^passage_protocol::crypto::generate_token$", rule=RC)
    if gb is not None:
        gan = ctx.an(gb)
        r = return_expr(gan)
        oks = [x for x in find_all(r, lambda x: x[0] == "agg" and x[1].endswith("Result::Ok"))]
        ok = False
        why = "generate_token returns %s" % render(r, maxdepth=5)
        if len(oks) == 1:
            v = oks[0][2][0][1]
            muts = find_all(v, lambda x: x[0] == "mut")
            rep = find_all(v, lambda x: x[0] == "repeat")
            filled = any(any(m.endswith("try_fill_bytes") for m in mm[2]) for mm in muts)
            n32 = any(str(x[2]).startswith("32") for x in rep)
            ok = filled and n32
        fills = calls(gb, "try_fill_bytes")
        ctx.check(ok and len(fills) == 1, RC, "C01/token-compare/fresh-32-bytes", gb.loc, reason=why,
                  detail="token = [0u8; 32] filled by SysRng::try_fill_bytes")
        if len(fills) == 1:
            fb, ft = fills[0]
            rng = garg(ft, 0) or ""
            ctx.check("SysRng" in rng or "OsRng" in rng, RC, "C01/token-compare/os-rng", site(gb, fb),
                      reason="token bytes come from %s, expected the OS RNG" % rng, detail="RNG = %s" % rng)
            ctx.check(len(try_edges(gan, fb)) == 1, RC, "C01/token-compare/rng-error-propagates", site(gb, fb),
                      reason="try_fill_bytes result is not propagated with `?`", detail="try_fill_bytes(..)?")
            whole = flow.strip(arg(gan, fb, ft, 1))
            ctx.check(whole[0] == "repeat", RC, "C01/token-compare/fills-whole-buffer", site(gb, fb),
                      reason="try_fill_bytes receives %s, not the whole token buffer" % render(whole, maxdepth=3),
                      detail="whole buffer passed to try_fill_bytes")

    # ---- C01/auth-gate
    RA = "C01/auth-gate"
    aus = L.call("AuthenticationAdapter::authenticate")
    ctx.exact(RA, "authenticate call in listen", len(aus), 1, body.loc)
    ctx.check(L.flag is not None, RA, "C01/auth-gate/flag", body.loc,
              reason="anchor-missing: cannot identify the should_authenticate flag (operand of EncryptionRequest.should_authenticate)",
              detail="flag local _%s" % L.flag)
    if len(aus) == 1 and L.flag is not None:
        abb, at = aus[0]
        te = try_edges(an, abb)
        ctx.check(len(te) == 1, RA, "C01/auth-gate/result-checked", site(body, abb),
                  reason="authenticate's result is not consumed through `?`", detail="authenticate(..).await…?")
        if len(te) == 1:
            swb, okt, errt = te[0]
            gf = L.gf
            is_true = lambda v: v[0] is not False  # noqa: E731  (True or unknown: authentication required)
            for bb, e, st in grants:
                okk, p = gf.must_pass(bb, cut_edges=[(swb, okt)], goal_val=is_true)
                ctx.check(okk, RA, "C01/auth-gate/" + e, st,
                          reason="with should_authenticate = true, %s is reachable without a successful authenticate()" % e,
                          detail="%s (flag=true) dominated by authenticate Ok edge" % e,
                          witness=[site(body, x) for x in (p or [])[-8:]])
            # err edge: nothing but error return
            starts = gf.nodes_of_bb(errt)
            reach = set(gf.bb(n) for n in gf.reachable(starts))
            bad = [(e, st) for bb, es in L.ev.items() if bb in reach for pos, e, st in es if not e.startswith("ret:err")]
            ctx.check(not bad, RA, "C01/auth-gate/err-edge-ends", site(body, abb),
                      reason="after a failed authentication the handler continues: %s" % bad[:4],
                      detail="Err edge reaches only `return Err`")
        # the authenticate call itself is guarded by the flag only (reads nothing else)
        okk, p = L.gf.must_pass(abb, goal_val=lambda v: v[0] is False)
        ctx.check(okk, RA, "C01/auth-gate/skipped-only-by-flag", site(body, abb),
                  reason="authenticate is called although should_authenticate = false (flag ignored)", detail="not called when flag=false")
        g2 = L.g
        # every path with flag = true passes authenticate before apply_encryption
        for bb, e, st in L.sites("call:apply_encryption"):
            okk, p = L.gf.must_pass(bb, cut_nodes=[abb], goal_val=lambda v: v[0] is not False)
            ctx.check(okk, RA, "C01/auth-gate/not-bypassed", st,
                      reason="with should_authenticate = true, encryption is enabled without calling authenticate",
                      detail="authenticate on every flag=true path to apply_encryption")
        # arguments
        a = [arg(an, abb, at, i) for i in range(len(at.args))]
        ctx.check(self_field(a[1]) == "client_address", RA, "C01/auth-gate/arg-client-addr", site(body, abb),
                  reason="client_addr argument is %s" % render(a[1], maxdepth=3), detail="client_addr = self.client_address")
        tup = flow.strip(a[2])
        hp = [field_path(v)[1][-1:] for _, v in tup[2]] if tup[0] == "agg" else []
        ctx.check(hp == [["server_address"], ["server_port"]] and field_path(a[3])[1][-1:] == ["protocol_version"], RA,
                  "C01/auth-gate/arg-server", site(body, abb),
                  reason="server_addr/protocol arguments are %s / %s" % (render(a[2], maxdepth=3), render(a[3], maxdepth=3)),
                  detail="server_addr = (handshake.server_address, .server_port); protocol = handshake.protocol_version")
        sec = flow.strip(a[5])
        secok = False
        sec_site = None
        if sec[0] == "try":
            c = flow.strip(sec[1])
            if c[0] == "call" and flow.short(c[1]).endswith("crypto::decrypt"):
                k, kf = field_path(c[3][0])
                v, vf = field_path(c[3][1])
                secok = _is_static(k, "crypto::KEY_PAIR") and kf == ["0"] and vf == ["shared_secret"]
                sec_site = c[4]
        ctx.check(secok, RA, "C01/auth-gate/arg-shared-secret", site(body, abb),
                  reason="shared_secret argument is %s; expected decrypt(&KEY_PAIR.0, &response.shared_secret)?" % render(a[5], maxdepth=5),
                  detail="shared_secret = decrypt(KEY_PAIR.0, EncryptionResponse.shared_secret)?")
        ctx.check(_has_static(a[6], "crypto::ENCODED_PUB"), RA, "C01/auth-gate/arg-public-key", site(body, abb),
                  reason="encoded_public argument is %s; expected ENCODED_PUB" % render(a[6], maxdepth=4),
                  detail="encoded_public = ENCODED_PUB")

        # ---- C01/same-secret
        RS = "C01/same-secret"
        aps = L.call("Connection::apply_encryption")
        ctx.exact(RS, "apply_encryption call in listen", len(aps), 1, body.loc)
        for bb, t in aps:
            s2 = flow.strip(arg(an, bb, t, 1))
            same = s2[0] == "try" and flow.strip(s2[1])[0] == "call" and flow.strip(s2[1])[4] == sec_site
            ctx.check(same, RS, "C01/same-secret/listen", site(body, bb),
                      reason="apply_encryption receives %s, which is not the secret given to authenticate" % render(s2, maxdepth=4),
                      detail="apply_encryption(secret) where secret is authenticate's shared_secret")
            te2 = try_edges(an, bb)
            ctx.check(len(te2) == 1, RS, "C01/same-secret/apply-checked", site(body, bb),
                      reason="apply_encryption's result is not consumed through `?`", detail="apply_encryption(..)?")
            if len(te2) == 1:
                for sbb, e, st in L.sites("send:login::clientbound::LoginSuccess"):
                    okk, p = g.must_pass(sbb, cut_edges=[(te2[0][0], te2[0][1])])
                    ctx.check(okk, RS, "C01/same-secret/success-after-encryption", st,
                              reason="Login Success can be sent without encryption having been enabled successfully",
                              detail="LoginSuccess dominated by apply_encryption Ok edge")
        ab = ctx.body(r"^passage_protocol::connection::\{impl#\d+\}::apply_encryption$", rule=RS)
        if ab is not None:
            aan = ctx.an(ab)
            cc = calls(ab, "stream::create_ciphers")
            ctx.exact(RS, "create_ciphers call in apply_encryption", len(cc), 1, ab.loc)
            for bb, t in cc:
                ctx.check(param_name(arg(aan, bb, t, 0)) == "shared_secret", RS, "C01/same-secret/apply-passes-param",
                          site(ab, bb), reason="create_ciphers receives %s" % render(arg(aan, bb, t, 0), maxdepth=3),
                          detail="create_ciphers(shared_secret param)")
            se = calls(ab, "CipherStream::<S, E, D>::set_encryption") or calls(ab, "set_encryption")
            ctx.exact(RS, "set_encryption call in apply_encryption", len(se), 1, ab.loc)
        cb = ctx.body(r"^passage_protocol::crypto::stream::create_ciphers$", rule=RS)
        if cb is not None:
            can = ctx.an(cb)
            ns = calls(cb, "KeyIvInit::new_from_slices")
            ctx.exact(RS, "new_from_slices calls in create_ciphers", len(ns), 2, cb.loc)
            for bb, t in ns:
                k, iv = param_name(arg(can, bb, t, 0)), param_name(arg(can, bb, t, 1))
                ctx.check(k == "shared_secret" and iv == "shared_secret", RS,
                          "C01/same-secret/key-iv@" + (garg(t, 0) or "?").split("::")[-1].split("<")[0], site(cb, bb),
                          reason="cipher built with key=%s iv=%s" % (k, iv), detail="key = iv = shared_secret")

    # ---- C01/identity-flow
    RI = "C01/identity-flow"
    if L.flag is not None:
        uses = []   # (name, bb, expr, expected field class)
        for bb, t, agg in L.send_agg("LoginSuccessPacket"):
            f = dict(agg[2]) if agg[0] == "agg" else {}
            uses.append(("LoginSuccess.user_name", bb, f.get("user_name"), "name"))
            uses.append(("LoginSuccess.user_id", bb, f.get("user_id"), "id"))
        for suf, nm in (("FilterAdapter::filter", "filter.user"), ("StrategyAdapter::select", "select.user")):
            for bb, t in L.call(suf):
                u = flow.strip(arg(an, bb, t, 4))
                if u[0] == "agg" and len(u[2]) == 2:
                    uses.append((nm + ".0", bb, u[2][0][1], "name"))
                    uses.append((nm + ".1", bb, u[2][1][1], "id"))
                else:
                    uses.append((nm, bb, None, "name"))
        for b in body.blocks:
            if b.cleanup:
                continue
            for i, s in enumerate(b.stmts):
                if s.kind == "assign" and s.rv.k == "agg" and s.rv.j.get("adt", "").endswith("cookie::AuthCookie") \
                        and not body.is_noise(s):
                    e = an.rvalue_expr(s.rv, (b.idx, i), 0)
                    f = dict(e[2])
                    uses.append(("AuthCookie.user_name", b.idx, f.get("user_name"), "name"))
                    uses.append(("AuthCookie.user_id", b.idx, f.get("user_id"), "id"))
                    uses.append(("AuthCookie.profile_properties", b.idx, f.get("profile_properties"), "properties"))
        ctx.floor(RI, "identity uses (LoginSuccess x2, filter x2, select x2, AuthCookie x3)", len(uses), 9, body.loc)
        want = {"name": {"auth": "name", "cookie": "user_name"}, "id": {"auth": "id", "cookie": "user_id"},
                "properties": {"auth": "properties", "cookie": "profile_properties"}}
        for nm, bb, e, cls in uses:
            st = site(body, bb)
            if e is None:
                ctx.fail(RI, "C01/identity-flow/%s/shape" % nm, st, "unrecognised-implementation: cannot read %s" % nm)
                continue
            for flagval, label, allowed in ((True, "authenticated", "auth"), (False, "cookie", "cookie")):
                pred = (lambda v: v[0] is not False) if flagval else (lambda v: v[0] is False)
                if not [n for n in L.gf.nodes_of_bb(bb) if pred(L.gf.val(n))]:
                    if nm.startswith("AuthCookie") and not flagval:
                        continue  # the cookie is only issued after fresh authentication
                    ctx.fail(RI, "C01/identity-flow/%s/%s/unreachable" % (nm, label), st,
                             "anchor-missing: %s is not reachable with should_authenticate=%s" % (nm, flagval))
                    continue
                r = L.refine(L.gf, e, bb, pred)
                leaves = leaf_values(r)
                kinds = [classify_identity(x) for x in leaves]
                bad = [k for k in kinds if k[0] != allowed or k[1] != want[cls][allowed]]
                ctx.check(not bad and bool(kinds), RI, "C01/identity-flow/%s/%s" % (nm, label), st,
                          reason="with should_authenticate=%s, %s may carry %s; allowed only %s.%s"
                                 % (flagval, nm, sorted(set(bad)), allowed, want[cls][allowed]),
                          detail="%s [flag=%s] <- %s" % (nm, flagval, sorted(set(kinds))))

    # ---- C01/who-may-send
    RW = "C01/who-may-send"
    counts = {"LoginSuccessPacket": 0, "StoreCookiePacket": 0, "TransferPacket": 0}
    outside = []
    for k, b in ctx.prog.lib_bodies.items():
        if k.startswith("passage_packets::"):
            continue
        for bb, t in calls(b, "Connection::send_packet"):
            T = t.callee["gargs"][-1].split("::")[-1]
            if T in counts:
                counts[T] += 1
                if not k.startswith("passage_protocol::connection::{impl#0}::listen"):
                    outside.append((k, T))
        for blk in b.blocks:
            for s in blk.stmts:
                if s.kind == "assign" and s.rv.k == "agg" and s.rv.j.get("ak") == "adt":
                    T = s.rv.j["adt"].split("::")[-1]
                    if T in counts and s.rv.j["adt"].startswith("passage_packets::") and "clientbound" in s.rv.j["adt"] \
                            and not k.startswith("passage_protocol::connection::{impl#0}::listen") and not blk.cleanup:
                        outside.append((k, "construct " + T))
    ctx.check(not outside, RW, "C01/who-may-send/only-listen", "",
              reason="grant packets are built or sent outside Connection::listen: %s" % outside[:5],
              detail="grant packets only in listen(): %s" % counts)
    ctx.check(counts == {"LoginSuccessPacket": 1, "StoreCookiePacket": 2, "TransferPacket": 1}, RW,
              "C01/who-may-send/counts", body.loc, reason="grant send sites: %s; expected 1/2/1" % counts,
              detail="send sites %s" % counts)


def _is_static(e, suffix):
    e = flow.strip(e)
    return e[0] == "static" and e[1].endswith(suffix)


def _has_static(e, suffix):
    return bool(find_all(e, lambda x: x[0] == "static" and x[1].endswith(suffix)))

"""C15 — Admission is decided on the effective client address, before any protocol work (DESIGN §5 C15)."""
from ..lib import *  # noqa: F401,F403
from .. import flow
from .listener_common import Handle

EXPLANATION = ("provenance and cut queries on Listener::handle: the effective client address is the PROXY header's "
               "source (falling back to the TCP peer) when PROXY protocol is configured and the TCP peer otherwise; "
               "that one value keys RateLimiter::enqueue (by ip()) and Connection::with_client_address; the task spawn "
               "is dominated by enqueue == true when a limiter is configured; the refusal edge only shuts the socket "
               "down; a header error returns before enqueue; no write to the stream before the spawn; inside "
               "Connection::listen self.client_address is what every adapter, the cookie and the IP comparison see")
DECIDED = [
    "PROXY enabled: client_addr = create_from_tokio(stream, cfg)?.proxy_header().proxied_address().map(source).unwrap_or(addr); disabled: client_addr = addr",
    "enqueue(key = client_addr.ip()) and with_client_address(client_addr) read the same value",
    "limiter configured: spawn dominated by enqueue == true; false edge: shutdown, return, no spawn, no other write",
    "header error: return without enqueue and without spawn; enqueue dominated by the header's Ok edge",
    "no write call on the accepted stream between accept and spawn other than the refusal shutdown",
    "Connection.client_address is the client_addr argument of all adapter calls (status, authenticate, filter, select) and of AuthCookie.client_addr / the cookie IP comparison (C01, C02, C03, C10 cross-reference)",
]
UNDECIDED = ["the third-party PROXY parser (proxy-header)", "the limiter arithmetic (C13)"]
TRUSTED = ["proxy_header::io::ProxiedStream::create_from_tokio consumes exactly the header or fails"]


def check(ctx):
    R = "C15/effective-address"
    H = Handle(ctx, R)
    if not H.ok:
        return
    body, an, g = H.handle, H.han, H.hg
    # the PROXY switch
    proxy_sw = None
    for b in body.blocks:
        if b.cleanup or b.term.kind != "switch" or body.is_noise(b.term):
            continue
        e, ls = an.switch_info(b.idx)
        if self_field(e) == "proxy_protocol" and any("Some" in l for l in ls.values()):
            proxy_sw = (b.idx, ls)
    ctx.check(proxy_sw is not None, R, "C15/effective-address/proxy-branch", body.loc,
              reason="anchor-missing: handle() does not branch on self.proxy_protocol", detail="branch on self.proxy_protocol Some/None")
    cft = calls(body, "ProxiedStream::<IO>::create_from_tokio") or calls(body, "ProxiedStream::create_from_tokio")
    ctx.exact(R, "create_from_tokio call", len(cft), 1, body.loc)
    hdr_ok_edges, hdr_err_edges = [], []
    if len(cft) == 1 and proxy_sw:
        cb, ct = cft[0]
        some_edges = [(proxy_sw[0], tb) for tb, l in proxy_sw[1].items() if "Some" in l]
        okk, p = g.must_pass(cb, cut_edges=some_edges)
        ctx.check(okk, R, "C15/effective-address/header-only-when-enabled", site(body, cb),
                  reason="the PROXY header is read although PROXY protocol is disabled", detail="create_from_tokio only on the Some edge")
        cfg = arg(an, cb, ct, 1)
        r, fs = field_path(cfg)
        ctx.check(self_field(("field", r, fs[0]) if False else _first(cfg)) == "proxy_protocol", R, "C15/effective-address/parse-config", site(body, cb),
                  reason="header parsed with %s, expected the configured self.proxy_protocol" % render(cfg, maxdepth=3), detail="parse config = self.proxy_protocol")
        ctx.check(param_name(arg(an, cb, ct, 0)) == "stream", R, "C15/effective-address/header-from-accepted-stream", site(body, cb),
                  reason="header is read from %s" % render(arg(an, cb, ct, 0), maxdepth=3), detail="header read from the accepted stream")
        # match on the result
        for b in body.blocks:
            if b.cleanup or b.term.kind != "switch" or body.is_noise(b.term):
                continue
            e, ls = an.switch_info(b.idx)
            x = flow.strip(e)
            if x[0] == "await" and flow.strip(x[1])[0] == "call" and flow.strip(x[1])[4] == cb:
                hdr_ok_edges += [(b.idx, tb) for tb, l in ls.items() if "Ok" in l]
                hdr_err_edges += [(b.idx, tb) for tb, l in ls.items() if "Err" in l]
        ctx.check(bool(hdr_ok_edges) and bool(hdr_err_edges), R, "C15/effective-address/header-result-matched", site(body, cb),
                  reason="the result of create_from_tokio is not matched on Ok/Err", detail="Ok/Err match on the header result")

    # client_addr used by enqueue and with_client_address
    enq = calls(body, "RateLimiter::<T>::enqueue") or calls(body, "RateLimiter::enqueue")
    ctx.exact(R, "RateLimiter::enqueue call in handle", len(enq), 1, body.loc)
    indirect = [(bb, cname(t)) for bb, t in body.calls() if not body.is_noise(t) and (bb, t) not in enq
                and ctx.cg.term_reaches(body, t, "RateLimiter::enqueue")]
    ctx.check(not indirect, R, "C15/effective-address/single-budget-site", body.loc,
              reason="rate-limit budget is also consumed through %s" % indirect, detail="enqueue reachable only from its one call site in handle()")
    eff = None
    if len(enq) == 1:
        eb, et = enq[0]
        k = flow.strip(arg(an, eb, et, 1))
        if k[0] == "call" and flow.short(k[1]).endswith("SocketAddr::ip"):
            eff = k[3][0]
        ctx.check(eff is not None, R, "C15/effective-address/limiter-key-is-ip", site(body, eb),
                  reason="limiter key is %s, expected client_addr.ip()" % render(k, maxdepth=3), detail="enqueue(client_addr.ip())")
    if eff is not None:
        vals = leafs(eff)
        kinds = sorted(set(k for v in vals for k in classify_addr(v)))
        ctx.check(kinds == ["peer", "proxied-source"], R, "C15/effective-address/value", site(body, enq[0][0]),
                  reason="effective address alternatives are %s; expected {PROXY source falling back to peer, peer}" % kinds,
                  detail="client_addr ∈ {header.proxied_address().map(source).unwrap_or(addr) [proxy on], addr [proxy off]}")
        # which alternative on which branch
        if proxy_sw and len(cft) == 1:
            # the proxied alternative is defined on the Ok edge
            pass
    if H.task is not None:
        wca = calls(H.task, "with_client_address")
        ctx.exact(R, "with_client_address in the connection task", len(wca), 1, H.task.loc)
        for bb, t in wca:
            up = H.task_upvar(arg(H.tan, bb, t, 1))
            src = H.capture(up) if up else None
            same = src is not None and eff is not None and _same_cell(src, eff)
            ctx.check(same, R, "C15/effective-address/connection-gets-same", site(H.task, bb),
                      reason="the connection is given %s, the limiter was asked about %s" % (render(src, maxdepth=3) if src else "?", render(eff, maxdepth=3) if eff else "?"),
                      detail="with_client_address(client_addr) — the value the limiter saw")
    # the connection runs on the ProxiedStream itself (it replays bytes that were read past the header), never on an unwrapped socket
    if H.task is not None:
        news = calls(H.task, "Connection::<S, Stat, Disc, Filt, Stra, Auth, Loca>::new") or calls(H.task, "Connection::new")
        for bb, t in news:
            up = H.task_upvar(arg(H.tan, bb, t, 0))
            src = H.capture(up) if up else None
            ok = src is not None
            why = "Connection::new is given %s" % (render(arg(H.tan, bb, t, 0), maxdepth=3))
            if ok:
                vals = leafs(src)
                kinds = []
                for v in vals:
                    v = flow.strip(v)
                    if v[0] == "call" and flow.short(v[1]).endswith("ProxiedStream::unproxied"):
                        kinds.append("unproxied")
                    elif v[0] == "field" and v[2] == "0" and flow.strip(v[1])[0] == "variant" and calls_in(v, "create_from_tokio") and not \
                            [c for c in calls_in(v) if flow.short(c[1]).split("::")[-1] in ("into_inner", "get_mut", "get_ref", "into_parts")]:
                        kinds.append("proxied")
                    else:
                        kinds.append("other:" + render(v, maxdepth=3))
                ok = sorted(set(kinds)) == ["proxied", "unproxied"]
                why = "the connection's stream is %s; expected the ProxiedStream returned by create_from_tokio (or ProxiedStream::unproxied(stream))" % sorted(set(kinds))
            ctx.check(ok, R, "C15/effective-address/connection-on-proxied-stream", site(H.task, bb),
                      reason=why + ": unwrapping it discards client bytes that arrived in the same read as the PROXY header, so an admitted connection is never served",
                      detail="connection runs on the ProxiedStream (header remainder replayed)")
    # closure mapping ProxiedAddress -> source
    for c in ctx.prog.children(body.key):
        if c.kind != "Closure" or c is H.task:
            continue
        can = ctx.an(c)
        r = flow.strip(return_expr(can))
        root, fs = field_path(r)
        if fs[-1:] in (["source"], ["destination"]):
            ctx.check(fs[-1:] == ["source"], R, "C15/effective-address/source-not-destination", c.loc,
                      reason="the proxied address is mapped to .%s" % fs[-1], detail="proxied address -> .source")

    # ---- C15/limiter-gate
    RG = "C15/limiter-gate"
    if len(enq) == 1 and H.spawn is not None:
        eb, et = enq[0]
        sb = H.spawn[0]
        # three scenarios decide the gate (pv/sample.py Scenario): no limiter configured / limiter admits / limiter refuses.
        # Each fixes the outcome of the `self.rate_limiter` test and of enqueue(); what stays reachable is what the handler does.
        from ..sample import Scenario

        def lim(choice):
            def sw(bb, e, ls):
                if self_field(e) == "rate_limiter":
                    return choice
                return None
            return sw
        none = Scenario(ctx, body, switches=lim(("None", "otherwise")))
        admit = Scenario(ctx, body, calls={eb: True}, switches=lim(("Some",)))
        refuse = Scenario(ctx, body, calls={eb: False}, switches=lim(("Some",)))
        ctx.check(none.reachable(sb) and admit.reachable(sb) and admit.reachable(eb) and refuse.reachable(eb) and refuse.reach != admit.reach, RG,
                  "C15/limiter-gate/branches", site(body, eb),
                  reason="anchor-missing: enqueue's verdict / the limiter option is not branched on (spawn reachable without limiter: %s, when admitted: %s; verdict changes the outcome: %s)"
                         % (none.reachable(sb), admit.reachable(sb), refuse.reach != admit.reach),
                  detail="branch on limiter Some and on enqueue's verdict")
        ctx.check(not refuse.reachable(sb), RG, "C15/limiter-gate/spawn-needs-admission", site(body, sb),
                  reason="a connection task can be spawned although the limiter refused the address",
                  detail="spawn unreachable when enqueue returns false")
        ctx.check(not none.reachable(eb), RG, "C15/limiter-gate/consulted-when-configured", site(body, eb),
                  reason="enqueue not tied to the configured limiter", detail="enqueue only with a configured limiter")
        okk, p = admit.g.must_pass(sb, cut_nodes=[eb])
        ctx.check(okk, RG, "C15/limiter-gate/not-bypassable", site(body, sb),
                  reason="with a limiter configured the spawn is reachable without consulting it", detail="limiter Some ⇒ enqueue before spawn",
                  witness=[site(body, x) for x in (p or [])[-6:]])
        # after a refusal
        reach = refuse.reach_from(body.blocks[eb].term.successors())
        bad = []
        for bb, t in body.calls():
            if bb in reach and not body.is_noise(t):
                n = cname(t) or dname(t)
                if bb == sb or ctx.cg.term_reaches(body, t, ("Connection::new", "write_all", "AsyncWriteExt::write", "write_packet",
                                                             "send_packet", "TaskTracker::spawn", "tokio::spawn", "task::spawn")):
                    bad.append(n)
        shut = [bb for bb, t in calls(body, "AsyncWriteExt::shutdown") if bb in reach]
        ctx.check(not bad and bool(shut), RG, "C15/limiter-gate/refusal-closes-unserved", site(body, eb),
                  reason="after a refusal the handler still does %s (shutdown reachable: %s)" % (bad, bool(shut)),
                  detail="refusal: shutdown().await then return; no spawn, no write")

    # ---- C15/header-first
    RH = "C15/header-first"
    if len(cft) == 1 and len(enq) == 1 and hdr_ok_edges:
        eb = enq[0][0]
        none_edges = [(proxy_sw[0], tb) for tb, l in proxy_sw[1].items() if "Some" not in l] if proxy_sw else []
        okk, p = g.must_pass(eb, cut_edges=hdr_ok_edges + none_edges)
        ctx.check(okk, RH, "C15/header-first/enqueue-after-valid-header", site(body, eb),
                  reason="rate-limit budget can be consumed for a connection whose PROXY header was not (successfully) read",
                  detail="enqueue dominated by header Ok edge (or PROXY disabled)")
        starts = []
        for (_, tb) in hdr_err_edges:
            starts += g.nodes_of_bb(tb)
        reach = set(g.bb(n) for n in g.reachable(starts)) if starts else set()
        bad = [cname(t) for bb, t in body.calls() if bb in reach and not body.is_noise(t)
               and ctx.cg.term_reaches(body, t, ("RateLimiter::enqueue", "TaskTracker::spawn", "Connection::new", "task::spawn", "tokio::spawn"))]
        ctx.check(not bad and bool(starts), RH, "C15/header-first/invalid-header-closed-unserved", site(body, cft[0][0]),
                  reason="after a header error the handler still reaches %s" % bad, detail="header error: return; no enqueue, no spawn")

    # ---- C15/no-early-bytes
    RE = "C15/no-early-bytes"
    writes = [(bb, cname(t)) for bb, t in body.calls() if not body.is_noise(t) and
              cname(t).split("::")[-1] in ("write_all", "write", "write_packet", "send_packet", "write_u8", "write_buf", "flush", "write_vectored")]
    ctx.check(not writes, RE, "C15/no-early-bytes/handle", body.loc,
              reason="handle() writes to the stream before the connection task starts: %s" % writes,
              detail="no write call in handle() (only the refusal shutdown)")

    # ---- C15/downstream (inside Connection::listen)
    RD = "C15/downstream"
    lb = ctx.body(r"^passage_protocol::connection::\{impl#\d+\}::listen::\{closure#0\}::\{closure#0\}$", rule=RD)
    if lb is not None:
        lan = ctx.an(lb)
        n = 0
        for suf, idx in (("StatusAdapter::status", 1), ("AuthenticationAdapter::authenticate", 1), ("FilterAdapter::filter", 1),
                         ("StrategyAdapter::select", 1)):
            for bb, t in calls(lb, suf):
                a = arg(lan, bb, t, idx)
                n += 1
                ctx.check(self_field(a) == "client_address", RD, "C15/downstream/" + suf.split("::")[-1], site(lb, bb),
                          reason="%s sees client address %s, expected self.client_address" % (suf, render(a, maxdepth=3)),
                          detail="%s(client_addr = self.client_address)" % suf.split("::")[-1])
        ctx.floor(RD, "adapter calls taking the client address", n, 4, lb.loc)
        wb = ctx.body(r"^passage_protocol::connection::\{impl#\d+\}::with_client_address$", rule=RD)
        if wb is not None:
            ups = builder_updates(ctx.an(wb))
            ctx.check(param_name(ups.get("client_address", ("unknown", ""))) == "client_address" and len(ups) == 1, RD,
                      "C15/downstream/builder-stores", wb.loc, reason="with_client_address does not store its argument into self.client_address",
                      detail="with_client_address stores its parameter")


def _first(e):
    hits = find_all(e, lambda x: x[0] == "field" and self_field(x) is not None)
    return hits[0] if hits else e


def leafs(e):
    e = flow.strip(e)
    if e[0] == "phi":
        out = []
        for x in e[1]:
            out.extend(leafs(x))
        return out
    if e[0] == "field" and flow.strip(e[1])[0] == "phi":
        out = []
        for x in flow.strip(e[1])[1]:
            out.extend(leafs(("field", x, e[2])))
        return out
    if e[0] == "field" and flow.strip(e[1])[0] == "agg":
        for n, v in flow.strip(e[1])[2]:
            if n == e[2]:
                return leafs(v)
    return [e]


def _from_header(e):
    """e is proxied_address() of the proxy_header() of the stream returned by create_from_tokio"""
    src = flow.strip(e)
    if src[0] == "call" and flow.short(src[1]).endswith("proxied_address"):
        hdr = flow.strip(src[3][0])
        if hdr[0] == "call" and flow.short(hdr[1]).endswith("proxy_header") and calls_in(hdr, "create_from_tokio"):
            return True
    return False


def classify_addr(v):
    """the set of address sources one leaf of the effective-address expression stands for: 'peer' (the accepted
    socket's address), 'proxied-source' (source address of the PROXY header); the combinator spelling
    `header.proxied_address().map(|a| a.source).unwrap_or(addr)` stands for both"""
    v = flow.strip(v)
    if param_name(v) == "addr" and not field_path(v)[1][1:]:
        return ["peer"]
    if v[0] == "call" and flow.short(v[1]).endswith("Option::unwrap_or"):
        d = flow.strip(v[3][1])
        m = flow.strip(v[3][0])
        if param_name(d) == "addr" and m[0] == "call" and flow.short(m[1]).endswith("Option::map") and _from_header(m[3][0]):
            return ["peer", "proxied-source"]
    if v[0] == "call" and flow.short(v[1]).endswith("Option::map_or") and len(v[3]) == 3:
        if param_name(v[3][1]) == "addr" and _from_header(v[3][0]):
            return ["peer", "proxied-source"]
    # match header.proxied_address() { Some(a) => a.source, None => addr }
    if v[0] == "field" and v[2] in ("source", "destination"):
        inner = flow.strip(v[1])
        if inner[0] == "field" and inner[2] == "0":
            var = flow.strip(inner[1])
            if var[0] == "variant" and var[2] == "Some" and _from_header(var[1]):
                return ["proxied-" + v[2]]
    return ["other:" + render(v, maxdepth=2)]


def _same_cell(a, b):
    """two expressions denote the same local cell / the same value"""
    ca = find_all(a, lambda x: x[0] == "cell")
    cb = find_all(b, lambda x: x[0] == "cell")
    if ca and cb:
        return ca[0][1] == cb[0][1]
    return flow.strip(a) == flow.strip(b)

"""C03 — The player is transferred to exactly the target the strategy chose (DESIGN §5 C03)."""
from ..lib import *  # noqa: F401,F403
from .. import flow
from .listen_common import Listen, leaf_values

EXPLANATION = ("value provenance in Connection::listen: filter's candidate list = discover()'s result, select's list = "
               "filter()'s result, Transfer.host/port = ip()/port() of the address of select()'s Some payload; each "
               "stage consumed through `?`; Some/None guard on the selection; locale argument of every localize call "
               "must have the ClientInformation locale among its reaching definitions; FixedLocalizationAdapter's "
               "fallback chain as order/provenance facts (order of Transfer/Disconnect is C06's DFA)")
DECIDED = [
    "filter(targets = discover()?), select(targets = filter(..)?) with the same client/server/protocol/user arguments; keep_alive() branches never produce a value",
    "Transfer.host = select()?.Some.address.ip().to_string(), Transfer.port = the same address's port(); exactly one Transfer send, on the Some edge only",
    "None edge: localize(locale, \"disconnect_no_target\", []) -> configuration Disconnect{reason = that text} -> Err(NoTargetFound)",
    "the locale passed to localize is the locale the client reported in Client Information",
    "FixedLocalizationAdapter: candidates = [locale or default, its '_'-prefixes longest first, default, its prefixes]; first candidate present in the table wins; text = table[candidate][key] with parameters substituted",
]
UNDECIDED = ["which text a concrete table yields for a concrete locale string", "NBT encoding of the reason (C09)"]
TRUSTED = ["std::net::SocketAddr::ip/port", "tokio::select! expansion"]


def producing_call(e):
    """strip try/await/select_out down to the producing call; returns (call expr or None, went_through_try)"""
    x = flow.strip(e)
    tried = False
    for _ in range(10):
        if x[0] == "try":
            tried = True
            x = flow.strip(x[1])
        elif x[0] == "await":
            x = flow.strip(x[1])
        elif x[0] == "select_out":
            x = flow.strip(x[3])
        else:
            break
    return (x if x[0] == "call" else None), tried


def check(ctx):
    disconnect_text(ctx)
    R = "C03/pipeline"
    L = Listen(ctx, R)
    if not L.ok:
        return
    body, an, g = L.body, L.an, L.g
    # the Transfer is the last thing the connection does: after it was sent nothing is sent, received or waited for
    RT = "C03/transfer-last"
    tsites = L.sites("send:configuration::clientbound::Transfer")
    ctx.floor(RT, "Transfer send sites in listen", len(tsites), 1, body.loc)
    for tbb, e, st in tsites:
        starts = []
        for nb in body.blocks[tbb].term.successors():
            starts += g.nodes_of_bb(nb)
        reach = set(g.bb(n) for n in g.reachable(starts))
        after = sorted(set(x for bb2, es in L.ev.items() if bb2 in reach for _, x, _ in es
                           if x.startswith(("send:", "recv:", "rp:", "call:keep_alive", "call:discover", "call:filter", "call:select"))))
        ctx.check(not after, RT, "C03/transfer-last/nothing-after", st,
                  reason="after the Transfer was sent the handler still does %s: the Transfer is no longer the last packet of the connection" % after,
                  detail="after Transfer: return (no further send / receive / keep-alive)")
    disc, filt, sel = L.call("DiscoveryAdapter::discover"), L.call("FilterAdapter::filter"), L.call("StrategyAdapter::select")
    ctx.exact(R, "discover call", len(disc), 1, body.loc)
    ctx.exact(R, "filter call", len(filt), 1, body.loc)
    ctx.exact(R, "select call", len(sel), 1, body.loc)
    if not (len(disc) == len(filt) == len(sel) == 1):
        return

    def stage_input(bb, t, producer_suffix, key):
        e = arg(an, bb, t, 5)
        vals = leaf_values(e)
        prods = []
        for v in vals:
            c, tried = producing_call(v)
            prods.append((flow.short(c[1]) if c else render(v, maxdepth=2), tried, c[4] if c else None))
        real = [p for p in prods if not p[0].endswith("Connection::keep_alive")]
        okk = len(real) == 1 and real[0][0].endswith(producer_suffix) and real[0][1]
        ctx.check(okk, R, key, site(body, bb),
                  reason="candidate list comes from %s; expected exactly %s(..)? (error propagated)" % (prods, producer_suffix),
                  detail="targets <- %s(..)?" % producer_suffix)
        return real[0][2] if okk else None

    fbb, ft = filt[0]
    sbb, stt = sel[0]
    stage_input(fbb, ft, "DiscoveryAdapter::discover", "C03/pipeline/filter-gets-discovered")
    stage_input(sbb, stt, "FilterAdapter::filter", "C03/pipeline/select-gets-filtered")
    # same request context on filter and select
    for i, nm in ((1, "client_addr"), (2, "server_addr"), (3, "protocol"), (4, "user")):
        a, b = arg(an, fbb, ft, i), arg(an, sbb, stt, i)
        ctx.check(_norm(a) == _norm(b), R, "C03/pipeline/same-" + nm, site(body, sbb),
                  reason="filter and select receive different %s: %s vs %s" % (nm, render(a, maxdepth=4), render(b, maxdepth=4)),
                  detail="filter/select share %s" % nm)
    a1 = arg(an, fbb, ft, 1)
    ctx.check(self_field(a1) == "client_address" or _is_copy_of_self_field(an, a1, "client_address"), R,
              "C03/pipeline/client-addr", site(body, fbb), reason="client_addr is %s" % render(a1, maxdepth=4),
              detail="client_addr = self.client_address")

    # ---- the selection guard
    RT = "C03/transfer-fields"
    some_edges, none_edges, guard_bb = [], [], None
    for b in body.blocks:
        if b.cleanup or b.term.kind != "switch" or body.is_noise(b.term):
            continue
        e, ls = an.switch_info(b.idx, opt=True)
        vals = leaf_values(e)
        cs = [producing_call(v)[0] for v in vals]
        if any(c is not None and c[4] == sbb and flow.short(c[1]).endswith("StrategyAdapter::select") for c in cs) \
                and any("Some" in l for l in ls.values()):
            guard_bb = b.idx
            some_edges += [(b.idx, tb) for tb, l in ls.items() if "Some" in l]
            none_edges += [(b.idx, tb) for tb, l in ls.items() if "None" in l]
    ctx.check(guard_bb is not None, RT, "C03/transfer-fields/selection-guard", site(body, sbb),
              reason="anchor-missing: the Option returned by select() is not matched", detail="Some/None match on select()'s result")
    trs = L.send_agg("configuration::clientbound::TransferPacket")
    ctx.exact(RT, "Transfer send", len(trs), 1, body.loc)
    for bb, t, agg in trs:
        f = dict(agg[2]) if agg[0] == "agg" else {}
        host, port = f.get("host"), f.get("port")

        def addr_of_selected(x, method):
            x = flow.strip(x)
            if x[0] == "call" and flow.short(x[1]).endswith(method):
                n = 0
                for v in leaf_values(x[3][0]):
                    r, fs = field_path(v)
                    c, tried = producing_call(r)
                    if c is not None and flow.short(c[1]).endswith("Connection::keep_alive"):
                        continue  # that select! branch never yields a value (C07/raced/never-ok)
                    if not (c is not None and c[4] == sbb and tried and fs == ["0", "address"]):
                        return False
                    n += 1
                return n == 1
            return False
        hok = False
        if host is not None:
            h = flow.strip(host)   # to_string looked through
            hok = addr_of_selected(h, "SocketAddr::ip")
        ctx.check(hok, RT, "C03/transfer-fields/host", site(body, bb),
                  reason="Transfer.host is %s; expected select()?.Some.address.ip().to_string()" % (render(host, maxdepth=6) if host else "?"),
                  detail="host = selected.address.ip().to_string()")
        ctx.check(port is not None and addr_of_selected(port, "SocketAddr::port"), RT, "C03/transfer-fields/port", site(body, bb),
                  reason="Transfer.port is %s; expected select()?.Some.address.port()" % (render(port, maxdepth=6) if port else "?"),
                  detail="port = selected.address.port()")
        if guard_bb is not None:
            okk, p = g.must_pass(bb, cut_edges=some_edges)
            ctx.check(okk, RT, "C03/transfer-fields/on-some-edge", site(body, bb),
                      reason="Transfer is reachable without select() having returned Some", detail="Transfer only on the Some edge")
    # every stage through `?`
    ka_ok = L.keep_alive_ok_edges()
    ctx.check(L.keep_alive_never_ok(), R, "C03/pipeline/keep-alive-branch-never-yields", body.loc,
              reason="keep_alive() can return Ok: its select! branch could then supply the stage result",
              detail="keep_alive() has no Ok-producing return (premise for the select! branches)")
    for nm, (bb, t) in (("discover", disc[0]), ("filter", filt[0]), ("select", sel[0])):
        te = try_edges(an, bb)
        ctx.check(len(te) == 1, R, "C03/pipeline/%s-error-propagates" % nm, site(body, bb),
                  reason="%s's result is not consumed through `?`" % nm, detail="%s(..)…?" % nm)
        if len(te) == 1:
            for tbb, _, tagg in trs:
                okk, p = g.must_pass(tbb, cut_edges=[(te[0][0], te[0][1])] + ka_ok)
                ctx.check(okk, R, "C03/pipeline/%s-ok-before-transfer" % nm, site(body, tbb),
                          reason="Transfer reachable although %s failed" % nm, detail="Transfer dominated by %s Ok edge" % nm)

    # ---- C03/last-packet (None edge script; the order itself is C06's DFA)
    RL = "C03/last-packet"
    locs = L.call("LocalizationAdapter::localize")
    ctx.exact(RL, "localize call in listen", len(locs), 1, body.loc)
    for bb, t in locs:
        if guard_bb is not None:
            okk, p = g.must_pass(bb, cut_edges=none_edges)
            ctx.check(okk, RL, "C03/last-packet/localize-on-none-edge", site(body, bb),
                      reason="the no-target message is produced although a target was chosen", detail="localize only on the None edge")
        k = flow.strip(arg(an, bb, t, 2))
        ctx.check(k == ("const", "&str", "disconnect_no_target"), RL, "C03/last-packet/message-key", site(body, bb),
                  reason="message key is %s, expected \"disconnect_no_target\"" % render(k), detail="key = disconnect_no_target")
        ds = L.send_agg("configuration::clientbound::DisconnectPacket")
        ctx.exact(RL, "configuration Disconnect send in listen", len(ds), 1, body.loc)
        for dbb, dt, dagg in ds:
            reason = dict(dagg[2]).get("reason") if dagg[0] == "agg" else None
            c, tried = producing_call(reason) if reason is not None else (None, False)
            ctx.check(c is not None and c[4] == bb and tried, RL, "C03/last-packet/reason-is-localized", site(body, dbb),
                      reason="Disconnect.reason is %s, expected the localized text" % (render(reason, maxdepth=4) if reason else "?"),
                      detail="Disconnect.reason = localize(..).await?")
            # no Transfer / StoreCookie reachable after the None edge
            starts = []
            for (_, tb) in none_edges:
                starts += g.nodes_of_bb(tb)
            reach = set(g.bb(n) for n in g.reachable(starts)) if starts else set()
            bad = [e for bb2, es in L.ev.items() if bb2 in reach for _, e, _ in es
                   if e.startswith("send:configuration::clientbound::Transfer") or e.startswith("send:configuration::clientbound::StoreCookie")]
            ctx.check(not bad and bool(starts), RL, "C03/last-packet/no-transfer-on-none", site(body, dbb),
                      reason="after `no target` the handler may still send %s" % bad, detail="None edge sends only the Disconnect")

    # ---- C03/locale-capture
    RC = "C03/locale-capture"
    ci = [bb for bb, t in L.call("ReadPacket::read_from_buffer") if (garg(t, 0) or "").endswith("ClientInformationPacket")]
    ctx.exact(RC, "ClientInformation decode in listen", len(ci), 1, body.loc)
    # writes to self.client_locale anywhere in passage-protocol
    writes = []
    for k, b in ctx.prog.lib_bodies.items():
        if not k.startswith("passage_protocol::connection::"):
            continue
        ban = None
        for blk in b.blocks:
            if blk.cleanup:
                continue
            for i, s in enumerate(blk.stmts):
                if s.kind == "assign" and s.place.fields()[-1:] == ["client_locale"] and "*" in [p for p in s.place.proj if p == "*"]:
                    ban = ban or ctx.an(b)
                    writes.append((k, blk.idx, ban.rvalue_expr(s.rv, (blk.idx, i), 0), b))
    captures = []
    for k, bb, e, b in writes:
        hit = find_all(e, lambda x: x[0] == "call" and x[5] and x[5][0].endswith("ClientInformationPacket"))
        r, fs = field_path(_inner_some(e))
        if hit and fs[-1:] == ["locale"] and k == body.key:
            captures.append(bb)
    for bb, t in locs:
        la = arg(an, bb, t, 1)
        direct = find_all(la, lambda x: x[0] == "call" and x[5] and x[5][0].endswith("ClientInformationPacket"))
        via_self = self_field(_inner_opt(la)) == "client_locale"
        okk = bool(direct) or (via_self and any(g.must_pass(bb, cut_nodes=[c])[0] for c in captures))
        ctx.check(okk, RC, "C03/locale-capture/listen:disconnect_no_target", site(body, bb),
                  reason="the locale passed to localize is %s; the locale reported in Client Information never reaches it "
                         "(self.client_locale is only ever assigned %s)" % (render(la, maxdepth=4), sorted(set(render(w[2], maxdepth=2) for w in writes)) or "in Connection::new"),
                  detail="locale <- ClientInformation.locale")
    rb = ctx.body(r"^passage_protocol::connection::\{impl#\d+\}::receive_packet::\{closure#0\}::\{closure#0\}$", rule=RC)
    if rb is not None:
        ran = ctx.an(rb)
        for bb, t in calls(rb, "LocalizationAdapter::localize"):
            la = arg(ran, bb, t, 1)
            ctx.check(self_field(_inner_opt(la)) == "client_locale", RC, "C03/locale-capture/receive_packet:disconnect_timeout", site(rb, bb),
                      reason="timeout message is localized with %s, not the connection's client locale" % render(la, maxdepth=4),
                      detail="locale = self.client_locale")
    others = [w for w in writes if w[0] != body.key or w[1] not in captures]
    ctx.check(not others, RC, "C03/locale-capture/single-writer", body.loc,
              reason="self.client_locale is also written at %s" % [(w[0], render(w[2], maxdepth=2)) for w in others],
              detail="client_locale written only by the capture (%d site)" % len(captures))

    locale_chain(ctx)


def _inner_opt(e):
    x = flow.strip(e)
    if x[0] == "call" and flow.short(x[1]).endswith(("as_deref", "as_ref", "cloned", "map")) and x[3]:
        return x[3][0]
    return e


def _inner_some(e):
    x = flow.strip(e)
    if x[0] == "agg" and x[1].endswith("Option::Some"):
        return x[2][0][1]
    return e


def _norm(e):
    """normalise an expression for same-ness: call sites dropped, cells resolved to their (local, field)"""
    if not isinstance(e, tuple) or not e:
        return e
    if isinstance(e[0], str) and e[0] in flow.KINDS:
        if e[0] in ("ref", "deref", "mut"):
            return _norm(e[1])
        if e[0] == "cell":
            return ("cell", e[1], e[2])
        if e[0] == "call":
            if flow.is_transparent_call(e) and e[3]:
                return _norm(e[3][0])
            return ("call", flow.short(e[1]), tuple(_norm(a) for a in e[3]))
        if e[0] == "agg":
            return ("agg", e[1], tuple((n, _norm(v)) for n, v in e[2]))
    return tuple(_norm(x) if isinstance(x, tuple) else x for x in e)


def _is_copy_of_self_field(an, e, f):
    return self_field(flow.strip(e)) == f


def locale_chain(ctx):
    R = "C03/locale-chain"
    lb = ctx.body(r"^passage_adapters::localization::fixed::\{impl#\d+\}::localize::\{closure#0\}::\{closure#0\}$", rule=R)
    ab = ctx.body(r"^passage_adapters::localization::fixed::\{impl#\d+\}::append_locale$", rule=R)
    if lb is None or ab is None:
        return
    an = ctx.an(lb)
    g = ctx.graph(lb)
    aps = calls(lb, "FixedLocalizationAdapter::append_locale")
    ctx.exact(R, "append_locale calls in localize", len(aps), 2, lb.loc)
    if len(aps) == 2:
        order = sorted(aps, key=lambda x: 0 if always_before(g, x[0], [y for y in aps if y is not x][0][0]) else 1)
        (b1, t1), (b2, t2) = order
        ctx.check(always_before(g, b1, b2), R, "C03/locale-chain/order", site(lb, b1),
                  reason="the two append_locale calls are not ordered", detail="client locale appended before default locale")
        a1 = flow.strip(arg(an, b1, t1, 1))
        ok1 = False
        if a1[0] == "call" and flow.short(a1[1]).endswith("Option::unwrap_or"):
            ok1 = param_name(a1[3][0]) == "locale" and self_field(a1[3][1]) == "default_locale"
        ctx.check(ok1, R, "C03/locale-chain/first-is-client-locale", site(lb, b1),
                  reason="first candidate source is %s; expected locale.unwrap_or(&self.default_locale)" % render(a1, maxdepth=4),
                  detail="first = locale.unwrap_or(default)")
        a2 = arg(an, b2, t2, 1)
        ctx.check(self_field(a2) == "default_locale", R, "C03/locale-chain/second-is-default", site(lb, b2),
                  reason="second candidate source is %s; expected self.default_locale" % render(a2, maxdepth=4),
                  detail="second = self.default_locale")
        v1, v2 = t1.args[2], t2.args[2]
        same_vec = _root_local(lb, an, b1, v1) == _root_local(lb, an, b2, v2) and _root_local(lb, an, b1, v1) is not None
        ctx.check(same_vec, R, "C03/locale-chain/same-list", site(lb, b2),
                  reason="the two append_locale calls fill different lists", detail="both fill the same candidate list")
        vec_local = _root_local(lb, an, b1, v1)
        # lookup loop: messages.get(candidate) with candidate iterating that list, after both appends
        gets = [(bb, t) for bb, t in calls(lb, "HashMap::<K, V, S>::get") + calls(lb, "HashMap::get")]
        look = []
        for bb, t in gets:
            recv = arg(an, bb, t, 0)
            if self_field(recv) == "messages":
                look.append((bb, t))
        # the same lookup written with a combinator: candidates.iter().find_map(|c| self.messages.get(c))
        via_find = []
        for fbb, ft, ai, cb in closure_arg_calls(ctx, lb, ("Iterator::find_map",)):
            can = ctx.an(cb)
            for ibb, it_ in calls(cb, "HashMap::<K, V, S>::get") + calls(cb, "HashMap::get"):
                if self_field(arg(can, ibb, it_, 0)) == "messages" and flow.strip(arg(can, ibb, it_, 1))[0] == "param":
                    via_find.append((fbb, ft))
        ctx.exact(R, "self.messages.get(candidate) lookups", len(look) + len(via_find), 1, lb.loc)
        for fbb, ft in via_find:
            src = arg(an, fbb, ft, 0)
            from_list = bool(find_all(src, lambda x: x[0] == "mut" and any(m.endswith("append_locale") for m in x[2])))
            ctx.check(from_list, R, "C03/locale-chain/lookup-iterates-candidates", site(lb, fbb),
                      reason="find_map runs over %s, not over the candidate list" % render(src, maxdepth=5),
                      detail="find_map over the candidate list front to back")
            ctx.check(always_before(g, b2, fbb), R, "C03/locale-chain/lookup-after-build", site(lb, fbb),
                      reason="lookup happens before the candidate list is complete", detail="lookup after both appends")
            ctx.check(not calls_in(src, "Iterator::rev") and not calls_in(src, "Iterator::skip"), R, "C03/locale-chain/front-to-back", site(lb, fbb),
                      reason="candidates are tried in reverse order", detail="no reversal of the candidate order")
        for bb, t in look:
            k = arg(an, bb, t, 1)
            it = [c for c in calls_in(k, "Iterator::next")]
            from_list = False
            for c in it:
                for ii in calls_in(c, "IntoIterator::into_iter"):
                    if find_all(ii, lambda x: x[0] == "mut" and any(m.endswith("append_locale") for m in x[2])):
                        from_list = True
            ctx.check(from_list, R, "C03/locale-chain/lookup-iterates-candidates", site(lb, bb),
                      reason="messages.get is keyed by %s, not by the candidates in order" % render(k, maxdepth=5),
                      detail="lookup key iterates the candidate list front to back")
            ctx.check(always_before(g, b2, bb), R, "C03/locale-chain/lookup-after-build", site(lb, bb),
                      reason="lookup happens before the candidate list is complete", detail="lookup after both appends")
            revs = calls_in(k, "Iterator::rev")
            ctx.check(not revs, R, "C03/locale-chain/front-to-back", site(lb, bb),
                      reason="candidates are tried in reverse order", detail="no reversal of the candidate order")
        # loop exit on first hit: a branch on is_some of the lookup result leaves the loop
        brk = bool(via_find)      # find_map returns the first Some by definition
        for b in lb.blocks:
            if b.cleanup or b.term.kind != "switch" or lb.is_noise(b.term):
                continue
            e, ls = an.switch_info(b.idx)
            if e[0] == "call" and flow.short(e[1]).endswith("Option::is_some"):
                brk = True
        ctx.check(brk, R, "C03/locale-chain/first-hit-wins", lb.loc,
                  reason="the lookup loop does not stop at the first candidate present in the table",
                  detail="loop breaks on the first Some")
    # append_locale: push(full) then prefixes, longest first
    aan = ctx.an(ab)
    ag = ctx.graph(ab)
    pushes = calls(ab, "Vec::<T, A>::push") + calls(ab, "Vec::push")
    exts = [(bb, t) for bb, t in calls(ab, "Extend::extend")]
    if len(pushes) == 1 and len(exts) == 1:
        # push(locale); locales.extend(seps.iter().rev().map(|&i| &locale[..i]))
        ctx.exact(R, "push calls in append_locale", len(pushes) + len(exts), 2, ab.loc)
        fb_, ft_ = pushes[0]
        full_ok = param_name(arg(aan, fb_, ft_, 1)) == "locale" and field_path(arg(aan, fb_, ft_, 1))[1] == []
        eb_, et_ = exts[0]
        ctx.check(full_ok and param_name(arg(aan, eb_, et_, 0)) == "locales" and param_name(arg(aan, fb_, ft_, 0)) == "locales", R,
                  "C03/locale-chain/append-shape", ab.loc,
                  reason="unrecognised-implementation: append_locale must push the full locale once and then its prefixes", detail="push(locale); extend(prefixes)")
        ctx.check(always_before(ag, fb_, eb_), R, "C03/locale-chain/full-before-prefixes", site(ab, fb_),
                  reason="prefixes are pushed before the full locale", detail="full locale first")
        it_e = arg(aan, eb_, et_, 1)
        okp = _separators_last_first(it_e)
        maps = [c for c in calls_in(it_e, "Iterator::map") if len(c[3]) == 2 and flow.strip(c[3][1])[0] == "agg" and flow.strip(c[3][1])[1].startswith("closure:")]
        # the element closure: &locale[..i]
        elem_ok = False
        for c in maps:
            clo = flow.strip(c[3][1])
            cb = ctx.prog.bodies.get(clo[1].split(":", 1)[1])
            if cb is None:
                continue
            r0 = flow.strip(return_expr(ctx.an(cb)))
            if r0[0] == "call" and flow.short(r0[1]).endswith("Index::index"):
                base, rng = flow.strip(r0[3][0]), flow.strip(r0[3][1])
                caps = dict(clo[2])
                is_locale = base[0] == "field" and flow.strip(base[1])[0] == "env" and param_name(caps.get(base[2], ("unknown", ""))) == "locale"
                if is_locale and rng[0] == "agg" and rng[1].endswith("RangeTo") and flow.strip(rng[2][0][1])[0] in ("param", "field", "deref"):
                    elem_ok = True
        ctx.check(okp and elem_ok, R, "C03/locale-chain/prefixes-longest-first", site(ab, eb_),
                  reason="prefixes are produced by %s; expected &locale[..i] for i over match_indices('_') reversed" % render(it_e, maxdepth=6),
                  detail="prefixes = locale[..i], i over '_' positions, last first")
        pushes = []
    else:
        ctx.exact(R, "push calls in append_locale", len(pushes), 2, ab.loc)
    if len(pushes) == 2:
        full = [p for p in pushes if param_name(arg(aan, p[0], p[1], 1)) == "locale" and field_path(arg(aan, p[0], p[1], 1))[1] == []]
        pre = [p for p in pushes if p not in full]
        ctx.check(len(full) == 1 and len(pre) == 1, R, "C03/locale-chain/append-shape", ab.loc,
                  reason="unrecognised-implementation: append_locale must push the full locale once and prefixes in a loop",
                  detail="push(locale); loop push(&locale[..i])")
        if len(full) == 1 and len(pre) == 1:
            ctx.check(always_before(ag, full[0][0], pre[0][0]), R, "C03/locale-chain/full-before-prefixes", site(ab, full[0][0]),
                      reason="prefixes are pushed before the full locale", detail="full locale first")
            pe = flow.strip(arg(aan, pre[0][0], pre[0][1], 1))
            okp = False
            if pe[0] == "call" and flow.short(pe[1]).endswith("Index::index"):
                base, rng = pe[3][0], flow.strip(pe[3][1])
                if param_name(base) == "locale" and rng[0] == "agg" and rng[1].endswith("RangeTo"):
                    idx = rng[2][0][1]
                    okp = _separators_last_first(idx)
            ctx.check(okp, R, "C03/locale-chain/prefixes-longest-first", site(ab, pre[0][0]),
                      reason="prefix push is %s; expected &locale[..i] for i over match_indices('_') reversed" % render(pe, maxdepth=6),
                      detail="prefixes = locale[..i], i over '_' positions, last first")
    # result text
    r = return_expr(an)
    oks = find_all(r, lambda x: x[0] == "agg" and x[1].endswith("Result::Ok"))
    ctx.floor(R, "Ok(..) results in localize", len(oks), 3, lb.loc)
    tmpl = False
    for o in oks:
        v = o[2][0][1]
        if calls_in(v, "str::replace") or find_all(v, lambda x: x[0] == "call" and flow.short(x[1]).endswith("::replace")):
            gs = [c for c in calls_in(v, "::get")]
            if any(param_name(c[3][1]) == "key" for c in gs):
                tmpl = True
        # params.iter().fold(template.clone(), |m, (k, v)| m.replace(k, v))
        for c in calls_in(v, "Iterator::fold"):
            if len(c[3]) == 3 and any(param_name(gc[3][1]) == "key" for gc in calls_in(c[3][1], "::get")) and param_name(flow.strip(c[3][0], extra=("iter", "into_iter"))) == "params":
                clo = flow.strip(c[3][2])
                cb = ctx.prog.bodies.get(clo[1].split(":", 1)[1]) if clo[0] == "agg" and clo[1].startswith("closure:") else None
                if cb is not None and (calls(cb, "str::replace") or [1 for _, t_ in cb.calls() if (cname(t_) or dname(t_)).endswith("::replace")]):
                    tmpl = True
    ctx.check(tmpl, R, "C03/locale-chain/template-by-key", lb.loc,
              reason="the returned text is not table[candidate].get(key) with parameters substituted",
              detail="text = messages[candidate][key] with replace(param_key, param_val)")


def disconnect_text(ctx):
    """the localized message reaches the client as it is: write_text_component treats a message as JSON only when it starts
    with '{' (a JSON text component object); any other text — including one that starts with '[' — is sent as a plain string tag"""
    R = "C03/disconnect-text"
    wb = ctx.body(r"^passage_packets::writer::\{impl#0\}::write_text_component::\{closure#0\}$", rule=R)
    if wb is None:
        return
    an = ctx.an(wb)
    sw = calls(wb, ("str::starts_with", "starts_with"))
    chars = []
    for bb, t in sw:
        pat = flow.strip(arg(an, bb, t, 1))
        consts = find_all(pat, lambda y: y[0] == "const")
        for c in consts:
            chars.append(c[2])
    parses = calls(wb, ("serde_json::from_str", "from_str"))
    ctx.check(len(sw) >= 1 and sorted(set(map(str, chars))) == ["{"] and len(parses) == 1, R, "C03/disconnect-text/json-only-for-objects", wb.loc,
              reason="write_text_component routes messages starting with %s to the JSON parser (parse calls: %d); only a message that starts with '{' is a "
                     "JSON text component — a plain message such as \"[Lobby] no server available\" would fail to parse and no Disconnect would be sent"
                     % (sorted(set(map(str, chars))), len(parses)),
              detail="JSON parsing only for messages starting with '{'; everything else is a string tag")


def _separators_last_first(e):
    """e iterates the positions of '_' in the locale from the last to the first: match_indices('_') reversed (once), or
    rmatch_indices('_') not reversed"""
    us = find_all(e, lambda x: x[0] == "const" and x[2] == "_")
    fwd = [c for c in calls_in(e) if flow.short(c[1]).split("::")[-1] == "match_indices"]
    bwd = [c for c in calls_in(e) if flow.short(c[1]).split("::")[-1] == "rmatch_indices"]
    revs = len(calls_in(e, "Iterator::rev"))
    return bool(us) and ((bool(fwd) and not bwd and revs == 1) or (bool(bwd) and not fwd and revs == 0))


def _root_local(body, an, bb, op):
    """the user local a `&mut v` operand ultimately borrows"""
    l = op.place.local if op.place is not None else None
    for _ in range(6):
        if l is None:
            return None
        if body.local_name(l):
            return l
        ds = an.defs.get(l, [])
        if len(ds) != 1 or not hasattr(ds[0][2], "rv"):
            return None
        rv = ds[0][2].rv
        src = rv.place if rv.place is not None else (rv.ops[0].place if rv.ops else None)
        l = src.local if src is not None else None
    return None

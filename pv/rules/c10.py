"""C10 — Issued cookies are verifiable, complete, and accepted on the next transfer (DESIGN §5 C10)."""
from ..lib import *  # noqa: F401,F403
from .. import flow
from .listen_common import Listen, leaf_values, classify_identity
from .c03 import producing_call

EXPLANATION = ("provenance of every AuthCookie / SessionCookie field at the issue site in Connection::listen, the "
               "StoreCookie packets (constant keys, payload = sign(to_vec(cookie), self.auth_secret) resp. to_vec), "
               "issue conditions as cut queries (fresh authentication, secret configured, no prior session cookie), "
               "shape of cookie::sign (HMAC-SHA256 keyed with the secret over the message; output tag then message) and "
               "agreement of sign/verify and of the issued type/keys with the acceptance path (C02)")
DECIDED = [
    "AuthCookie{client_addr = self.client_address, timestamp = now, user_name/user_id/profile_properties = authenticated identity, target = Some(selected.identifier), extra = default}",
    "StoreCookie{key = AUTH_COOKIE_KEY, payload = sign(to_vec(&cookie)?, self.auth_secret)}; sign = HMAC-SHA256(secret)(message) emitted as tag(32) || message",
    "the auth cookie is issued only when should_authenticate is true and auth_secret is Some, and before the Transfer (order: C06)",
    "type and key written = type and key read on acceptance; every field read at acceptance is written at issue; sign/verify agree on MAC, key, covered bytes and the 32-byte split",
    "StoreCookie{SESSION_COOKIE_KEY, to_vec(SessionCookie{id = Uuid::new_v4(), server_address/port = handshake's})} exactly when the client presented no session cookie",
]
UNDECIDED = ["JSON/HMAC byte-level output (serde_json, hmac, sha2)", "clock"]
TRUSTED = ["hmac::Mac", "serde_json::to_vec/from_slice are inverse for these derive(Serialize, Deserialize) types", "uuid::Uuid::new_v4"]


def check(ctx):
    R = "C10/auth-cookie-fields"
    L = Listen(ctx, R)
    if not L.ok:
        return
    body, an, g = L.body, L.an, L.g
    sel = L.call("StrategyAdapter::select")
    sbb = sel[0][0] if len(sel) == 1 else None
    # the AuthCookie aggregate
    cookies = []
    for b in body.blocks:
        if b.cleanup:
            continue
        for i, s in enumerate(b.stmts):
            if s.kind == "assign" and s.rv.k == "agg" and s.rv.j.get("adt", "").endswith("cookie::AuthCookie") and not body.is_noise(s):
                cookies.append((b.idx, i, an.rvalue_expr(s.rv, (b.idx, i), 0)))
    ctx.exact(R, "AuthCookie construction in listen", len(cookies), 1, body.loc)
    cookie_bb = None
    if len(cookies) == 1:
        cookie_bb, ci, ce = cookies[0]
        f = dict(ce[2])
        st = site(body, cookie_bb)
        ctx.check(self_field(f.get("client_addr", ("unknown",))) == "client_address", R, "C10/auth-cookie-fields/client_addr", st,
                  reason="AuthCookie.client_addr is %s, expected self.client_address" % render(f.get("client_addr", ("unknown", "")), maxdepth=3),
                  detail="client_addr = self.client_address")
        ts = f.get("timestamp", ("unknown", ""))
        from ..lib import deep_calls
        now_ok = bool(deep_calls(ctx.prog, ts, "SystemTime::now")) and bool(deep_calls(ctx.prog, ts, "Duration::as_secs")) and \
            (bool(find_all(ts, lambda y: y[0] in ("constitem", "const", "static") and "UNIX_EPOCH" in str(y[1:]))) or not calls_in(ts, "SystemTime::now"))
        ctx.check(now_ok, R, "C10/auth-cookie-fields/timestamp", st,
                  reason="AuthCookie.timestamp is %s, expected seconds since UNIX_EPOCH of SystemTime::now()" % render(ts, maxdepth=4),
                  detail="timestamp = now().duration_since(UNIX_EPOCH).as_secs()")
        # ... taken when the cookie is issued (after routing chose the target), not carried over from earlier in the login
        nows = [c[0][4] for c in deep_calls(ctx.prog, ts, "SystemTime::now")]
        late = bool(nows) and sbb is not None and all(always_before(g, sbb, nb) for nb in nows)
        ctx.check(late, R, "C10/auth-cookie-fields/timestamp-is-issue-time", st,
                  reason="AuthCookie.timestamp reuses a clock reading taken at %s, before routing finished: the cookie is back-dated by the time login and routing took, so it expires early"
                         % [site(body, nb) for nb in nows],
                  detail="timestamp read from the clock after the target was selected")
        tg = flow.strip(f.get("target", ("unknown", "")))
        tok = False
        if tg[0] == "agg" and tg[1].endswith("Option::Some"):
            n = 0
            tok = True
            for v in leaf_values(tg[2][0][1]):
                r, fs = field_path(v)
                c, tried = producing_call(r)
                if c is not None and flow.short(c[1]).endswith("Connection::keep_alive"):
                    continue
                if not (c is not None and c[4] == sbb and tried and fs == ["0", "identifier"]):
                    tok = False
                n += 1
            tok = tok and n == 1
        ctx.check(tok, R, "C10/auth-cookie-fields/target", st,
                  reason="AuthCookie.target is %s, expected Some(selected target's identifier)" % render(tg, maxdepth=5),
                  detail="target = Some(selected.identifier)")
        ex = flow.strip(f.get("extra", ("unknown", "")))
        ctx.check(ex[0] == "call" and flow.short(ex[1]).endswith("Default::default"), R, "C10/auth-cookie-fields/extra", st,
                  reason="AuthCookie.extra is %s" % render(ex, maxdepth=3), detail="extra = Default::default()")
        # identity fields: authenticated identity (flag = true slice)
        if L.flag is not None:
            for fld, cls in (("user_name", "name"), ("user_id", "id"), ("profile_properties", "properties")):
                e = f.get(fld)
                r = L.refine(L.gf, e, cookie_bb, lambda v: v[0] is not False)
                kinds = sorted(set(classify_identity(x) for x in leaf_values(r)))
                ctx.check(kinds == [("auth", cls)], R, "C10/auth-cookie-fields/" + fld, st,
                          reason="AuthCookie.%s carries %s, expected the authenticated profile's %s" % (fld, kinds, cls),
                          detail="%s = authenticate(..).%s" % (fld, cls))
        adt = ctx.prog.adts.get("passage_protocol::cookie::AuthCookie")
        if adt:
            names = sorted(x["name"] for x in adt["variants"][0]["fields"])
            ctx.check(names == sorted(f.keys()) and len(names) == 7, R, "C10/auth-cookie-fields/all-fields-set", st,
                      reason="AuthCookie fields %s vs initialised %s" % (names, sorted(f.keys())), detail="all 7 fields initialised")

    # ---- C10/auth-cookie-wire
    RW = "C10/auth-cookie-wire"
    sends = L.send_agg("configuration::clientbound::StoreCookiePacket", key="passage:authentication")
    ctx.exact(RW, "StoreCookie[passage:authentication] send", len(sends), 1, body.loc)
    for bb, t, agg in sends:
        f = dict(agg[2]) if agg[0] == "agg" else {}
        pay = flow.strip(f.get("payload", ("unknown", "")))
        ok = False
        why = "payload is %s" % render(pay, maxdepth=5)
        if pay[0] == "call" and flow.short(pay[1]).endswith("cookie::sign"):
            msg, sec = flow.strip(pay[3][0]), pay[3][1]
            m_ok = False
            if msg[0] == "try":
                c = flow.strip(msg[1])
                if c[0] == "call" and flow.short(c[1]).endswith("serde_json::to_vec"):
                    v = flow.strip(c[3][0])
                    m_ok = v[0] == "agg" and v[1].endswith("AuthCookie::AuthCookie") and v[3] == cookie_bb
            hits = find_all(sec, lambda x: x[0] == "field" and self_field(x) == "auth_secret")
            s_ok = bool(hits)
            ok = m_ok and s_ok
            if not m_ok:
                why = "signed message is %s, expected serde_json::to_vec(&cookie)?" % render(msg, maxdepth=4)
            elif not s_ok:
                why = "signing key is %s, expected self.auth_secret" % render(sec, maxdepth=4)
        ctx.check(ok, RW, "C10/auth-cookie-wire/payload", site(body, bb), reason=why,
                  detail="payload = sign(&to_vec(&cookie)?, self.auth_secret)")
    sign_shape(ctx)

    # ---- C10/auth-cookie-when
    RN = "C10/auth-cookie-when"
    if L.flag is not None:
        for bb, t, agg in sends:
            okk, p = L.gf.must_pass(bb, goal_val=lambda v: v[0] is False)
            ctx.check(okk, RN, "C10/auth-cookie-when/only-after-fresh-auth", site(body, bb),
                      reason="an auth cookie is (re-)issued on a connection admitted by cookie (should_authenticate = false)",
                      detail="not reachable with should_authenticate = false")
            reach_true = [n for n in L.gf.nodes_of_bb(bb) if L.gf.val(n)[0] is not False]
            ctx.check(bool(reach_true), RN, "C10/auth-cookie-when/issued-after-fresh-auth", site(body, bb),
                      reason="the auth cookie send is unreachable after fresh authentication", detail="reachable with flag = true")
            # secret configured: dominated by Some edge of a match on self.auth_secret
            edges = []
            for b in body.blocks:
                if b.cleanup or b.term.kind != "switch" or body.is_noise(b.term):
                    continue
                e, ls = an.switch_info(b.idx, opt=True)
                if self_field(e) == "auth_secret":
                    edges += [(b.idx, tb) for tb, l in ls.items() if "Some" in l]
            okk, p = g.must_pass(bb, cut_edges=edges)
            ctx.check(okk and bool(edges), RN, "C10/auth-cookie-when/secret-configured", site(body, bb),
                      reason="auth cookie issued without a configured secret", detail="dominated by self.auth_secret is Some")
            # with flag true and secret Some the send is NOT skippable: every flag=true path from select-Some to Transfer passes it
            trs = L.sites("send:configuration::clientbound::Transfer")
            for tbb, e, st in trs:
                none_edges = []
                for b in body.blocks:
                    if b.cleanup or b.term.kind != "switch" or body.is_noise(b.term):
                        continue
                    ee, ls = an.switch_info(b.idx, opt=True)
                    if self_field(ee) == "auth_secret" and always_before(g, sbb or 0, b.idx):
                        none_edges += [(b.idx, tb) for tb, l in ls.items() if "None" in l]
                okk, p = L.gf.must_pass(tbb, cut_nodes=[bb], cut_edges=none_edges, goal_val=lambda v: v[0] is not False)
                ctx.check(okk, RN, "C10/auth-cookie-when/not-skippable", st,
                          reason="after fresh authentication with a secret configured the Transfer can be reached without issuing the auth cookie",
                          detail="flag=true ∧ secret: Transfer only after the auth cookie was stored")

    # ---- C10/roundtrip-types
    RT = "C10/roundtrip-types"
    reqs = L.sites("send:login::clientbound::CookieRequest[passage:authentication]")
    ctx.check(len(reqs) == 1 and len(sends) == 1, RT, "C10/roundtrip-types/key", body.loc,
              reason="request key and store key differ (request sites %d, store sites %d with key passage:authentication)" % (len(reqs), len(sends)),
              detail="CookieRequest and StoreCookie use AUTH_COOKIE_KEY")
    fs_calls = [(bb, t) for bb, t in L.call("serde_json::from_slice") if t.callee["gargs"][-1].endswith("cookie::AuthCookie")]
    ctx.check(len(fs_calls) == 1 and len(cookies) == 1, RT, "C10/roundtrip-types/type", body.loc,
              reason="type serialised and type parsed on acceptance differ", detail="AuthCookie written = AuthCookie parsed")
    # fields read at acceptance ⊆ fields written: all fields are initialised (checked above); record the read set
    if len(fs_calls) == 1:
        pb = fs_calls[0][0]
        read = set()
        for b in body.blocks:
            if b.cleanup:
                continue
            for i, s in enumerate(b.stmts):
                if s.kind == "assign" and not body.is_noise(s):
                    e = an.rvalue_expr(s.rv, (b.idx, i), 0)
                    for x in find_all(e, lambda x: x[0] == "field"):
                        r, fs = field_path(x)
                        r = flow.strip(r)
                        if r[0] == "try" and flow.strip(r[1])[0] == "call" and flow.strip(r[1])[4] == pb and fs:
                            read.add(fs[0])
        ctx.check(read >= {"client_addr", "timestamp", "user_name", "user_id", "profile_properties"}, RT,
                  "C10/roundtrip-types/fields-read", site(body, pb),
                  reason="acceptance reads %s of the cookie" % sorted(read), detail="acceptance reads %s" % sorted(read))

    # ---- C10/session-cookie
    RS = "C10/session-cookie"
    ss = L.send_agg("configuration::clientbound::StoreCookiePacket", key="passage:session")
    ctx.exact(RS, "StoreCookie[passage:session] send", len(ss), 1, body.loc)
    for bb, t, agg in ss:
        f = dict(agg[2]) if agg[0] == "agg" else {}
        pay = flow.strip(f.get("payload", ("unknown", "")))
        ok = False
        sc = None
        if pay[0] == "try":
            c = flow.strip(pay[1])
            if c[0] == "call" and flow.short(c[1]).endswith("serde_json::to_vec"):
                v = flow.strip(c[3][0])
                if v[0] == "agg" and v[1].endswith("SessionCookie::SessionCookie"):
                    sc = dict(v[2])
                    ok = True
        ctx.check(ok, RS, "C10/session-cookie/payload", site(body, bb),
                  reason="payload is %s, expected to_vec(&SessionCookie{..})?" % render(pay, maxdepth=4),
                  detail="payload = to_vec(&SessionCookie{..})?")
        if sc:
            idv = flow.strip(sc.get("id", ("unknown", "")))
            ctx.check(idv[0] == "call" and flow.short(idv[1]).endswith("::new_v4"), RS, "C10/session-cookie/fresh-id", site(body, bb),
                      reason="SessionCookie.id is %s, expected Uuid::new_v4()" % render(idv, maxdepth=3), detail="id = Uuid::new_v4()")
            for fld, src in (("server_address", "server_address"), ("server_port", "server_port")):
                r, fs = field_path(sc.get(fld, ("unknown", "")))
                c, tried = producing_call(r)
                good = fs == [src] and c is not None and c[5] and c[5][0].endswith("HandshakePacket")
                ctx.check(good, RS, "C10/session-cookie/" + fld, site(body, bb),
                          reason="SessionCookie.%s is %s, expected handshake.%s" % (fld, render(sc.get(fld, ("unknown", "")), maxdepth=4), src),
                          detail="%s = handshake.%s" % (fld, src))
        # issued exactly when none was presented
        edges_t, edges_f, dec_ok = [], [], False
        for b in body.blocks:
            if b.cleanup or b.term.kind != "switch" or body.is_noise(b.term):
                continue
            e, ls = an.switch_info(b.idx, opt=True)
            if any("Some" in l for l in ls.values()) and any("None" in l for l in ls.values()):
                x = flow.strip(e)
                if x[0] == "try":
                    c = flow.strip(x[1])
                    if c[0] == "call" and flow.short(c[1]).endswith("CookieResponsePacket::decode") \
                            and c[5] and c[5][-1].endswith("cookie::SessionCookie"):
                        pk = flow.strip(c[3][0])
                        r, fs = field_path(pk)
                        cc, tried = producing_call(r)
                        # the decoded packet is the response to the SESSION request (first cookie response)
                        sreq = L.sites("send:login::clientbound::CookieRequest[passage:session]")
                        areq = L.sites("send:login::clientbound::CookieRequest[passage:authentication]")
                        if cc is not None and sreq and always_before(g, sreq[0][0], cc[4]) and \
                                (not areq or always_before(g, cc[4], areq[0][0])):
                            dec_ok = True
                        edges_t += [(b.idx, tb) for tb, l in ls.items() if "None" in l]
                        edges_f += [(b.idx, tb) for tb, l in ls.items() if "None" not in l]
        okk, p = g.must_pass(bb, cut_edges=edges_t)
        ctx.check(okk and bool(edges_t) and dec_ok, RS, "C10/session-cookie/only-when-absent", site(body, bb),
                  reason="session cookie is stored although the client presented one (or the test is not on the session response)",
                  detail="dominated by decode::<SessionCookie>(session response)?.is_none()")
        for tbb, e, st in L.sites("send:configuration::clientbound::Transfer"):
            okk, p = g.must_pass(tbb, cut_nodes=[bb], cut_edges=edges_f)
            ctx.check(okk and bool(edges_f), RS, "C10/session-cookie/always-when-absent", st,
                      reason="a routed player without a session cookie can reach the Transfer without being given one",
                      detail="absent ⇒ stored before Transfer")


def sign_shape(ctx):
    R = "C10/auth-cookie-wire"
    sb = ctx.body(r"^passage_protocol::cookie::sign$", rule=R)
    if sb is None:
        return
    an = ctx.an(sb)
    g = ctx.graph(sb)
    news = calls(sb, "Mac::new_from_slice")
    ups = calls(sb, "Mac::update")
    fins = calls(sb, "Mac::finalize")
    ctx.check(len(news) == 1 and len(ups) == 1 and len(fins) == 1, R, "C10/auth-cookie-wire/sign-mac-calls", sb.loc,
              reason="unrecognised-implementation: sign uses %d new_from_slice, %d update, %d finalize" % (len(news), len(ups), len(fins)),
              detail="one MAC: new_from_slice, update, finalize")
    if len(news) == 1 and len(ups) == 1 and len(fins) == 1:
        nb, nt = news[0]
        ctx.check(param_name(arg(an, nb, nt, 0)) == "secret" and "sha2::Sha256" in " ".join(nt.callee["gargs"]), R,
                  "C10/auth-cookie-wire/sign-keyed-with-secret", site(sb, nb),
                  reason="MAC is %s keyed with %s" % (nt.callee["gargs"][:1], render(arg(an, nb, nt, 0), maxdepth=2)),
                  detail="HMAC-SHA256 keyed with the secret parameter")
        ub, ut = ups[0]
        ctx.check(param_name(arg(an, ub, ut, 1)) == "message" and field_path(arg(an, ub, ut, 1))[1] == [], R,
                  "C10/auth-cookie-wire/sign-covers-message", site(sb, ub),
                  reason="MAC covers %s, expected the whole message" % render(arg(an, ub, ut, 1), maxdepth=3), detail="update(message)")
    # output: extend(tag) then extend(message)
    exts = calls(sb, "extend_from_slice")
    concat = [c for c in calls_in(return_expr(an)) if flow.short(c[1]).split("::")[-1] == "concat"]
    if not exts and len(concat) == 1:
        # the same bytes built in one step: [tag, message].concat()
        arr = flow.strip(concat[0][3][0])
        while arr[0] == "cast":
            arr = flow.strip(arr[2])
        elems = [v for _, v in arr[2]] if arr[0] == "agg" and arr[1] == "array" else []
        ctx.exact(R, "extend_from_slice calls in sign", len(elems), 2, sb.loc)
        okc = len(elems) == 2 and bool(calls_in(elems[0], "Mac::finalize")) and bool(calls_in(elems[0], "into_bytes")) and \
            param_name(flow.strip(elems[1], extra=("as_slice", "as_ref"))) == "message" and field_path(flow.strip(elems[1], extra=("as_slice", "as_ref")))[1] == []
        ctx.check(okc, R, "C10/auth-cookie-wire/sign-tag-then-message", sb.loc,
                  reason="output is assembled as %s; expected [tag, message].concat()" % render(arr, maxdepth=4),
                  detail="output = finalize().into_bytes() || message")
        ctx.ok(R, "C10/auth-cookie-wire/sign-returns-buffer", sb.loc, "sign returns the concatenation")
    else:
        ctx.exact(R, "extend_from_slice calls in sign", len(exts), 2, sb.loc)
    if len(exts) == 2:
        order = sorted(exts, key=lambda x: 0 if always_before(g, x[0], [y for y in exts if y is not x][0][0]) else 1)
        first, second = order
        e1 = arg(an, first[0], first[1], 1)
        e2 = arg(an, second[0], second[1], 1)
        tag_first = bool(calls_in(e1, "Mac::finalize")) and bool(calls_in(e1, "into_bytes"))
        msg_second = param_name(e2) == "message"
        ctx.check(tag_first and msg_second and always_before(g, first[0], second[0]), R, "C10/auth-cookie-wire/sign-tag-then-message", site(sb, first[0]),
                  reason="output is assembled as %s then %s; expected tag then message" % (render(e1, maxdepth=3), render(e2, maxdepth=3)),
                  detail="output = finalize().into_bytes() || message")
    r = flow.strip(return_expr(an))
    muts = find_all(return_expr(an), lambda x: x[0] == "mut")
    ret_ok = any(all(m.endswith("extend_from_slice") for m in mm[2]) for mm in muts) or (not exts and len(concat) == 1)
    ctx.check(ret_ok, R, "C10/auth-cookie-wire/sign-returns-buffer/assembled", sb.loc,
              reason="sign returns %s" % render(r, maxdepth=3), detail="returns the assembled buffer")
    # agreement with verify: same MAC type
    vb = ctx.body(r"^passage_protocol::cookie::verify$", rule=R)
    if vb is not None and len(news) == 1:
        vn = calls(vb, "Mac::new_from_slice")
        same = len(vn) == 1 and vn[0][1].callee["gargs"] == news[0][1].callee["gargs"]
        ctx.check(same, R, "C10/auth-cookie-wire/sign-verify-same-mac", vb.loc,
                  reason="sign and verify use different MAC types", detail="sign and verify use the same MAC type")

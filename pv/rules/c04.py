"""C04 — No client input can crash the handler or make it allocate unboundedly (DESIGN §5 C04)."""
import json
import os
import re

from ..lib import *  # noqa: F401,F403
from .. import flow, boolform
from ..core import VERIF
from .listen_common import LISTEN, RECV, KEEP

EXPLANATION = ("guard/effect rules over the input-handling crates (passage-protocol, passage-packets, the locale chain): "
               "the frame-length guard 1 ≤ length ≤ self.max_packet_length dominates every further read and the length "
               "arithmetic; every allocation sized by a wire-derived value needs a dominating lower and upper bound (or a "
               "≤16-bit source); every may-panic site (MIR Assert terminators, unwrap/expect/panic, slice/str indexing, "
               "copy/from_slice, sized allocation) is discharged by a checked guard rule or by one reasoned line in "
               "spec/panic_triage.json — an untriaged site is a finding; fallible calls on the input path are consumed "
               "(`?`/match), never dropped; every loop is iterator-bounded or exits on a failed/short stream read")
DECIDED = [
    "receive_packet: id read, body read and the `length as u64 − 1` / u64::try_from(length).expect arithmetic are dominated by ¬(length ≤ 0) ∧ ¬(length > self.max_packet_length); the rejecting edges return Err(IllegalPacketLength) before any further read",
    "no allocation is sized by an unchecked wire value: sizes come from a constant, a ≤16-bit read, or a value with dominating lower- and upper-bound checks; bodies grow only with delivered data (take(n).read_to_end)",
    "every reachable may-panic site in passage-protocol / passage-packets / the locale chain is either guarded (rule-checked) or listed with a reason in spec/panic_triage.json; nothing else may panic",
    "Results produced on the input path are consumed; VarInt shifts stay below the integer width (7·(groups−1) < 32/64)",
    "every CFG loop in listen/keep_alive/receive_packet/readers is a bounded iterator loop or contains a stream read whose failure leaves the loop",
]
UNDECIDED = ["memory used inside dependencies (RSA, serde_json on ≤ max-frame inputs)", "stack depth of NBT parsing", "panics inside dependencies on the values passed (listed per callee in the triage table)"]
TRUSTED = ["overflow Assert terminators exist only in debug builds; they are triaged all the same", "tokio ReadBuf invariants (filled ≤ capacity)"]

SCOPE = ("passage_protocol::", "passage_packets::", "passage_adapters::localization::fixed::", "passage_adapters::authentication::minecraft_hash")
SKIP = ("passage_protocol::metrics::",)
PANIC_LAST = ("unwrap", "expect", "unwrap_unchecked", "panic", "panic_fmt", "panic_display", "index", "index_mut", "copy_from_slice",
              "clone_from_slice", "from_slice", "from_mut_slice", "split_at", "split_at_mut", "unreachable", "assert_failed", "begin_panic",
              "unwrap_err", "expect_err", "from_elem", "with_capacity", "reserve", "reserve_exact", "resize", "swap_remove", "remove",
              "unwrap_failed", "explicit_panic", "split_off", "drain", "truncate", "panic_nounwind", "panic_explicit", "unreachable_display")
NOT_PANICKY = ("serde_json::from_slice", "serde_json::de::from_slice", "HashMap::remove", "HashMap::<K, V, S>::remove", "BTreeMap::remove")
AUTO_MACROS = {
    "m:tokio::select": "tokio::select! scaffolding: shifts/remainders over the constant BRANCHES, `unreachable!`/`all branches are disabled` arms that the macro's own bookkeeping excludes",
    "_serde::Serialize": "serde derive: field counter arithmetic over compile-time constants",
    "_serde::Deserialize": "serde derive: compile-time constants",
    "m:std::assert": "explicit assert! (construction-time argument check, not on the connection path)",
    "m:tokio::pin": "tokio::pin! scaffolding",
}
ALLOC_LAST = ("from_elem", "with_capacity", "reserve", "reserve_exact", "resize", "with_capacity_in", "try_reserve")
WIRE_READS = ("read_varint", "read_varlong", "read_u8", "read_u16", "read_u32", "read_u64", "read_u128", "read_i8", "read_i16", "read_i32", "read_i64")
SMALL_READS = ("read_u8", "read_u16", "read_i8", "read_i16")


def triage_table():
    with open(os.path.join(VERIF, "spec", "panic_triage.json")) as fh:
        return json.load(fh)


def in_scope(k, b):
    if not k.startswith(SCOPE) or k.startswith(SKIP):
        return False
    if b.kind in ("Promoted",) or "Static" in b.kind or "Const" in b.kind:
        return False
    if "::tests::" in k or "::test::" in k:
        return False
    return True


def collect_sites(ctx):
    """[(fnkey, kind, detail, tag, bb, body)] may-panic sites in scope"""
    out = []
    for k, b in sorted(ctx.prog.lib_bodies.items()):
        if not in_scope(k, b):
            continue
        for bl in b.blocks:
            if bl.cleanup:
                continue
            t = bl.term
            if b.is_noise(t):
                continue
            chain = " ".join(b.chain(t))
            tag = ""
            for m in AUTO_MACROS:
                if m in chain:
                    tag = m
                    break
            if t.kind == "assert":
                if t.j["msg"].startswith("Overflow(") and bl.idx in tracing_region_blocks(b):
                    # debug-build overflow check on an argument of a tracing macro (`trace!(removed = before - after)`):
                    # diagnostics only, absent from release builds; other may-panic constructs in log arguments stay in scope
                    continue
                out.append((k, "assert", t.j["msg"], tag, bl.idx, b))
            elif t.kind == "call":
                nm = cname(t) or dname(t)
                last = nm.split("::")[-1]
                if last in PANIC_LAST and not nm.startswith(("tracing", "core::fmt", "std::fmt")) and not any(nm.endswith(x) for x in NOT_PANICKY):
                    detail = "::".join(nm.split("::")[-2:])
                    fnk = k
                    if last in ("expect", "expect_err") and len(t.args) > 1:
                        msg = ctx.an(b).operand_expr(t.args[1], (bl.idx, "term"))
                        msg = flow.strip(msg)
                        if msg[0] == "const" and isinstance(msg[2], str):
                            # an expect() is identified by its message, wherever it lives (helper extraction keeps the triage)
                            detail += "(%s)" % msg[2]
                            fnk = k.split("::")[0] + "::*"
                    out.append((fnk, "call", detail, tag, bl.idx, b))
    return out


def check(ctx):
    frame_guard(ctx)
    bounded_alloc(ctx)
    panic_sites(ctx)
    error_discipline(ctx)
    loops(ctx)


# ---- C04/frame-guard ----------------------------------------------------------------------------
def frame_guard(ctx):
    R = "C04/frame-guard"
    b = ctx.body(RECV, rule=R)
    if b is None:
        return
    an = ctx.an(b)
    g = ctx.graph(b)
    S, MAX = frame_samples(ctx, b)
    BAD_LOW, GOOD, BAD_HIGH = (-7, 0), (1, 2, MAX - 1, MAX), (MAX + 1,)
    ctx.floor(R, "tests of the frame length against constants / self.max_packet_length", len(S.cmp) + 2 * len(S.decided_switches), 2, b.loc)
    # everything that consumes or computes with the length after the select!
    deps = []
    for bb, kind, name, info in awaits(ctx, b):
        if kind in ("ws", "ext") and (name.endswith("read_varint") or name.endswith("read_to_end")):
            deps.append((bb, name.split("::")[-1]))
    for bb, t in calls(b, ("TryFrom::try_from", "AsyncReadExt::take", "Result::<T, E>::expect")):
        deps.append((bb, cname(t).split("::")[-1]))
    for blk in b.blocks:
        if blk.term.kind == "assert" and not blk.cleanup and not b.is_noise(blk.term) and "tokio::select" not in " ".join(b.chain(blk.term)):
            deps.append((blk.idx, "assert:" + blk.term.j["msg"]))
    ctx.floor(R, "length-dependent operations after the guard", len(deps), 5, b.loc)
    # the select!'s own read_varint happens before the length is known: it is reachable for every sample
    post = [(bb, nm) for bb, nm in deps if not all(S.reachable(v, bb) for v in BAD_LOW + BAD_HIGH) or nm != "read_varint"]
    pre = [d for d in deps if d not in post]
    low = all(not S.reachable(v, bb) for v in BAD_LOW for bb, _ in post) and all(S.reachable(1, bb) for bb, _ in post) and bool(post)
    high = all(not S.reachable(v, bb) for v in BAD_HIGH for bb, _ in post) and all(S.reachable(MAX, bb) for bb, _ in post) and bool(post)
    ctx.check(low, R, "C04/frame-guard/lower-bound", b.loc,
              reason="anchor-missing: no `length <= 0` rejection of the frame length (evaluated for lengths -7, 0, 1: length-dependent operations reachable for %s)"
                     % sorted(set(v for v in BAD_LOW for bb, _ in post if S.reachable(v, bb))),
              detail="lengths <= 0 never reach a length-dependent operation; length 1 does (sample-point evaluation of the guard)")
    ctx.check(high, R, "C04/frame-guard/upper-bound", b.loc,
              reason="anchor-missing: no `length > self.max_packet_length` rejection of the frame length (evaluated for max, max+1: reachable for max+1: %s, for max: %s)"
                     % (any(S.reachable(MAX + 1, bb) for bb, _ in post), all(S.reachable(MAX, bb) for bb, _ in post)),
              detail="length max+1 never reaches a length-dependent operation; length max does")
    ctx.check(len(pre) <= 1, R, "C04/frame-guard/single-unguarded-read", b.loc,
              reason="%d reads happen before the frame length is checked: %s" % (len(pre), pre), detail="only the length prefix itself is read before the guard")
    ordinal = {}
    for bb, nm in post:
        ordinal[nm] = ordinal.get(nm, 0) + 1
        ok1 = not any(S.reachable(v, bb) for v in BAD_LOW)
        ok2 = not any(S.reachable(v, bb) for v in BAD_HIGH)
        ctx.check(ok1 and ok2, R, "C04/frame-guard/dominates/%s#%d" % (nm, ordinal[nm]), site(b, bb),
                  reason="%s is reachable with a frame length that is %s" % (nm, "non-positive" if not ok1 else "above self.max_packet_length"),
                  detail="%s dominated by 1 <= length <= max" % nm)
    # what only an illegal length reaches: Err(IllegalPacketLength), no read
    good = set()
    for v in GOOD:
        good |= S.reach[v]
    from .. import events
    ev = events.extract(ctx, b)
    for v in BAD_LOW + BAD_HIGH:
        only = S.reach[v] - good
        reads = [bb for bb, kind, name, info in awaits(ctx, b) if bb in only]
        errs = [e for bb, es in ev.items() if bb in only for _, e, _ in es]
        ctx.check(not reads and "ret:err:IllegalPacketLength" in errs and "ret:ok" not in errs, R, "C04/frame-guard/reject-before-body/%s" % ("max+1" if v > MAX else v),
                  site(b, S.cmp_blocks()[0]) if S.cmp else b.loc,
                  reason="an illegal frame length (%s) does not end in Err(IllegalPacketLength) before anything else is read (awaits reachable: %d, results: %s)"
                         % ("max+1" if v > MAX else v, len(reads), sorted(set(errs))),
                  detail="illegal length: Err(IllegalPacketLength), nothing read")


FRAME_MAX = 1000


def frame_atom(x, L):
    """leaves of expressions over the frame length: the length itself (output of the select!'s read_varint arm)
    and the configured bound"""
    if x[0] not in ("binop", "cast", "call", "const", "constitem") and find_all(x, lambda y: y[0] == "select_out") and calls_in(x, "read_varint") \
            and not find_all(x, lambda y: y[0] in ("binop", "cast", "unop")):
        return L
    if self_field(x) == "max_packet_length":
        return FRAME_MAX
    return None


def frame_value(e, L):
    """value of an expression over the frame length for length L (None if it is not such an expression)"""
    from ..sample import evaluate
    return evaluate(e, lambda x: frame_atom(x, L))


def frame_samples(ctx, b):
    """sample-point refinement of receive_packet over the frame length (see pv/sample.py)"""
    from ..sample import Samples
    MAX = FRAME_MAX
    atom = frame_atom
    def switch_eval(e, ls, L):
        # `(lo..=hi).contains(&length)` / `(lo..hi).contains(&length)`
        x = flow.strip(e)
        if x[0] == "call" and flow.short(x[1]).endswith("::contains") and len(x[3]) == 2:
            rng, item = flow.strip(x[3][0]), x[3][1]
            v = frame_value(item, L)
            if rng[0] == "call" and flow.short(rng[1]).endswith(("RangeInclusive::<Idx>::new", "RangeInclusive::new")) and len(rng[3]) == 2:
                lo, hi = frame_value(rng[3][0], L), frame_value(rng[3][1], L)
                if None not in (v, lo, hi):
                    return ("true",) if lo <= v <= hi else ("false",)
            if rng[0] == "agg" and rng[1].split("::")[-1] in ("Range", "RangeInclusive"):
                f = dict(rng[2])
                lo, hi = frame_value(f.get("start", ("unknown", "")), L), frame_value(f.get("end", ("unknown", "")), L)
                if None not in (v, lo, hi):
                    inc = rng[1].split("::")[-1] == "RangeInclusive"
                    return ("true",) if (lo <= v <= hi if inc else lo <= v < hi) else ("false",)
        return None
    key = "_frame_samples_" + b.key
    S = getattr(ctx, key, None)
    if S is None:
        S = Samples(ctx, b, atom, [-7, 0, 1, 2, MAX - 1, MAX, MAX + 1], switch_eval=switch_eval)
        setattr(ctx, key, S)
    return S, MAX


# ---- C04/bounded-alloc --------------------------------------------------------------------------
def bounded_alloc(ctx):
    R = "C04/bounded-alloc"
    n = 0
    for k, b in sorted(ctx.prog.lib_bodies.items()):
        if not in_scope(k, b):
            continue
        an = None
        for bb, t in b.calls():
            nm = cname(t) or dname(t)
            last = nm.split("::")[-1]
            if last not in ALLOC_LAST or b.is_noise(t):
                continue
            an = an or ctx.an(b)
            g = ctx.graph(b)
            n += 1
            szi = 1 if last == "from_elem" else (len(t.args) - 1)
            if last == "resize":
                szi = 1
            sz = arg(an, bb, t, szi)
            reads = [c for c in calls_in(sz) if flow.short(c[1]).split("::")[-1] in WIRE_READS]
            fn = k.replace("::{closure#0}", "")
            key = "C04/bounded-alloc/%s/%s" % (fn.split("::", 1)[1], last)
            if not reads:
                ctx.ok(R, key, site(b, bb), "size is not wire-derived: %s" % render(sz, maxdepth=3))
                continue
            small = all(flow.short(c[1]).split("::")[-1] in SMALL_READS for c in reads)
            if small:
                ctx.ok(R, key, site(b, bb), "size comes from a ≤16-bit read (at most 64 KiB): %s" % render(sz, maxdepth=3))
                continue
            # need dominating lower + upper bound guards on the same value
            lo = hi = False
            for blk in b.blocks:
                if blk.cleanup or blk.term.kind != "switch" or b.is_noise(blk.term):
                    continue
                e, ls = an.switch_info(blk.idx)
                if not [c for c in calls_in(e) if c[4] in [r[4] for r in reads]]:
                    continue
                dom = any(g.must_pass(bb, cut_edges=[(blk.idx, tb)])[0] for tb in ls)
                if not dom:
                    continue
                x = flow.strip(e)
                if x[0] == "binop" and x[1] in ("Lt", "Le", "Gt", "Ge"):
                    other = flow.strip(x[3]) if calls_in(x[2]) else flow.strip(x[2])
                    if other[0] == "const" and other[2] in (0, 1):
                        lo = True
                    else:
                        hi = True
                if x[0] == "call" and flow.short(x[1]).endswith("Try::branch") and calls_in(x, "try_from"):
                    lo = True
            ctx.check(lo and hi, R, key, site(b, bb),
                      reason=("allocation of %s bytes where the size is read from the wire (%s) without a dominating %s: a negative VarInt becomes a huge usize "
                              "(capacity overflow panic) and 2^31−1 requests a 2 GiB buffer before a single body byte arrived")
                             % (render(sz, maxdepth=3), ", ".join(sorted(set(flow.short(c[1]).split("::")[-1] for c in reads))),
                                "lower and upper bound" if not lo and not hi else ("lower bound" if not lo else "upper bound")),
                      detail="wire-sized allocation is bounded below and above")
    ctx.floor(R, "allocation-sizing calls in scope", n, 3)


# ---- C04/panic-sites ----------------------------------------------------------------------------
def guard_discharges(ctx):
    """rule-checked discharges: {(fn, kind, detail): (ok, reason)}"""
    out = {}
    # cookie::verify slicing dominated by len >= 32 (checked in detail by C02/verify-shape)
    vb = ctx.prog.lib_bodies.get("passage_protocol::cookie::verify")
    if vb is not None:
        from .cookie_common import slicing_sites, verify_samples
        slices = slicing_sites(ctx, vb)
        S = verify_samples(ctx, vb, [32] + [n for _, _, n in slices])
        ok = bool(slices) and all(need is not None and not any(S.reachable(v, bb) for v in S.reach if v < need) for bb, what, need in slices)
        out[("passage_protocol::cookie::verify", "call", "index::index")] = (ok, "every slice of `signed` is unreachable for inputs shorter than it needs (sample-point evaluation of the length guard)")
        out[("passage_protocol::cookie::verify", "call", "slice::split_at")] = (ok, "split_at(n) unreachable for inputs shorter than n")
    # VarInt readers: shift 7*i with i < groups, 7*(groups-1) < width; buf[0] on a [u8; 1]
    for fn, width in (("read_varint", 32), ("read_varlong", 64)):
        k = "passage_packets::reader::{impl#0}::%s::{closure#0}" % fn
        b = ctx.prog.lib_bodies.get(k)
        if b is None:
            continue
        an = ctx.an(b)
        end = None
        for bb, t in calls(b, "IntoIterator::into_iter"):
            e = flow.strip(arg(an, bb, t, 0))
            if e[0] == "agg" and e[1].endswith("ops::Range::Range"):
                f = dict(e[2])
                if int_value(f["start"]) == 0 and int_value(f["end"]) is not None:     # any integer type, literal or named constant
                    end = int_value(f["end"])
        ok = end is not None and 7 * (end - 1) < width and 7 * (end - 1) >= 0
        why = "shift amount 7·i with i < %s: at most %s < %d" % (end, 7 * (end - 1) if end else "?", width)
        out[(k, "assert", "Overflow(Shl)")] = (ok, why)
        out[(k, "assert", "Overflow(Mul)")] = (ok, "7·i with i < %s cannot overflow i32" % end)
        arr1 = any(l["s"] == "[u8; 1]" for l in b.locals)
        out[(k, "assert", "BoundsCheck")] = (arr1, "index 0 of a [u8; 1] buffer")
    for fn in ("write_varint", "write_varlong"):
        k = "passage_packets::writer::{impl#0}::%s::{closure#0}" % fn
        b = ctx.prog.lib_bodies.get(k)
        if b is None:
            continue
        shifts = set()
        for blk in b.blocks:
            for s in blk.stmts:
                if s.kind == "assign" and s.rv.k == "binop" and s.rv.j["op"] == "Shr":
                    shifts.add(s.rv.ops[1].const_int())
        # (helpers merged into the writer bring their shifts along; named constants are resolved)
        for cst in binop_consts(ctx, b):
            if cst[0] in ("Shr", "ShrUnchecked"):
                shifts.add(cst[1])
        shifts.discard(None)
        out[(k, "assert", "Overflow(Shr)")] = (bool(shifts) and shifts <= {6, 7} and 7 in shifts, "constant shifts %s below the integer width" % sorted(shifts))
        out[(k, "assert", "BoundsCheck")] = (any(l["s"] == "[u8; 1]" for l in b.locals), "index 0 of a [u8; 1] buffer")
    # receive_packet: expect / Sub after the frame guard (C04/frame-guard proves dominance)
    rk = "passage_protocol::connection::{impl#0}::receive_packet::{closure#0}::{closure#0}"
    out[("passage_protocol::*", "call", "Result::expect(length is always positive)")] = ("frame-guard", "u64::try_from(length) after `length >= 1` (C04/frame-guard/dominates)")
    # the only subtraction allowed to rely on the frame guard is `length − 1` (minuend = the frame length, subtrahend = constant 1)
    rb = ctx.prog.lib_bodies.get(rk)
    sub_ok = "frame-guard"
    why_sub = "`length as u64 − 1` after `length >= 1` (C04/frame-guard/dominates)"
    if rb is not None:
        ran = ctx.an(rb)
        for blk in rb.blocks:
            if blk.cleanup or blk.term.kind != "assert" or blk.term.j["msg"] != "Overflow(Sub)" or rb.is_noise(blk.term) or "tokio::select" in " ".join(rb.chain(blk.term)):
                continue
            for i, st in enumerate(blk.stmts):
                if st.kind == "assign" and st.rv.k == "binop" and st.rv.j["op"].startswith("Sub"):
                    e = ran.rvalue_expr(st.rv, (blk.idx, i), 0)
                    a, c = flow.strip(e[2]), flow.strip(e[3])
                    from_len = bool(find_all(a, lambda y: y[0] == "select_out")) and bool(calls_in(a, "read_varint")) and not find_all(a, lambda y: y[0] == "binop")
                    if not (from_len and c[0] == "const" and c[2] == 1):
                        sub_ok = False
                        why_sub = ("subtraction %s − %s is not covered by the frame guard (it only proves length >= 1): the difference can underflow "
                                   "— panic in debug builds, take(huge) in release" % (render(a, maxdepth=3), render(c, maxdepth=3)))
    out[(rk, "assert", "Overflow(Sub)")] = (sub_ok, why_sub)
    # poll_write: buf[..written.min(buf.len())]
    pk = "passage_protocol::crypto::stream::{impl#2}::poll_write"
    pb = ctx.prog.lib_bodies.get(pk)
    if pb is not None:
        an = ctx.an(pb)
        ok = True
        for bb, t in calls(pb, "Index::index"):
            r = flow.strip(arg(an, bb, t, 1))
            ok = ok and r[0] == "agg" and r[1].endswith("RangeTo") and bool(calls_in(r, "min")) and bool(calls_in(r, "len"))
        out[(pk, "call", "index::index")] = (ok, "prefix bound is min(written, buf.len())")
    return out


def panic_sites(ctx):
    R = "C04/panic-sites"
    sites = collect_sites(ctx)
    ctx.floor(R, "may-panic sites in scope", len(sites), 60)
    table = triage_table()
    entries = {e["key"]: e for e in table["entries"]}
    guards = guard_discharges(ctx)
    frame_ok = not any(f.rule == "C04/frame-guard" for f in ctx.findings)
    counts = {}
    auto = {}
    for fn, kind, detail, tag, bb, b in sites:
        if tag:
            auto[tag] = auto.get(tag, 0) + 1
            continue
        counts.setdefault((fn, kind, detail), []).append(site(b, bb))
    for tag, n in sorted(auto.items()):
        ctx.ok(R, "C04/panic-sites/macro/" + tag, "", "%d sites generated by %s: %s" % (n, tag, AUTO_MACROS[tag]))
    used = set()
    # a site that moved into a closure of the same function (a loop body turned into `.map(|x| ..)`) keeps its triage:
    # when there is no entry for the closure body itself, the entry of the enclosing fn body applies (counts are summed)
    merged = {}
    for (fn, kind, detail), where in sorted(counts.items()):
        f2 = fn
        while ("%s|%s|%s" % (f2, kind, detail)) not in entries and (f2, kind, detail) not in guards and re.search(r"::\{closure#\d+\}$", f2):
            f2 = re.sub(r"::\{closure#\d+\}$", "", f2)
        if ("%s|%s|%s" % (f2, kind, detail)) not in entries and (f2, kind, detail) not in guards:
            f2 = fn
        merged.setdefault((f2, kind, detail), []).extend(where)
    counts = merged
    for (fn, kind, detail), where in sorted(counts.items()):
        key = "%s|%s|%s" % (fn, kind, detail)
        short_key = "C04/panic-sites/" + key.split("::", 1)[1].replace("::{closure#0}", "").replace("*|", "")
        if (fn, kind, detail) in guards:
            ok, why = guards[(fn, kind, detail)]
            if ok == "frame-guard":
                ok = frame_ok
            ctx.check(bool(ok), R, short_key, where[0], reason="guard rule failed for %s at %s: %s" % (key, where, why), detail="guarded: " + why)
            continue
        ent = entries.get(key)
        if ent is None and kind == "call" and detail.split("(")[0] in ("Option::expect", "Option::unwrap", "Result::unwrap", "Result::expect"):
            # generic discharge: the payload is taken on the edge of a dominating is_some()/is_ok()/match test of the same value
            if all(_payload_guarded(ctx, x[5], x[4]) for x in sites if x[0] == fn and x[1] == kind and x[2] == detail):
                ctx.ok(R, short_key, where[0], "guarded: payload taken after a dominating Some/Ok test of the same value")
                continue
        if ent is None:
            ctx.fail(R, short_key, where[0],
                     "untriaged may-panic site(s) on the input path: %s `%s` in %s at %s — add a dominating guard or a reasoned entry to spec/panic_triage.json"
                     % (kind, detail, fn, where))
            continue
        used.add(key)
        ctx.check(len(where) <= ent["n"], R, short_key, where[0],
                  reason="%d site(s) of %s `%s` in %s (%s) but only %d triaged: a new may-panic site appeared" % (len(where), kind, detail, fn, where, ent["n"]),
                  detail="triaged ×%d: %s" % (len(where), ent["reason"]))
    stale = [k for k in entries if k not in used]
    if stale:
        ctx.notes.append("triage entries without a matching site: %s" % stale)


# ---- C04/error-discipline -----------------------------------------------------------------------
def error_discipline(ctx):
    R = "C04/error-discipline"
    n = 0
    bad = []
    lossy = []
    for k, b in sorted(ctx.prog.lib_bodies.items()):
        if not (k.startswith(("passage_protocol::connection::", "passage_packets::reader::", "passage_protocol::cookie::verify", "passage_protocol::crypto::"))
                or re.search(r"passage_packets::\w+::(server|client)bound::\{impl#\d+\}::read_from_buffer", k)):
            continue
        if not in_scope(k, b):
            continue
        uses = {}
        for blk in b.blocks:
            if blk.cleanup:
                continue
            for s in blk.stmts:
                if s.kind == "assign":
                    for o in s.rv.ops:
                        if o.place is not None:
                            uses[o.place.local] = uses.get(o.place.local, 0) + 1
                    if s.rv.place is not None:
                        uses[s.rv.place.local] = uses.get(s.rv.place.local, 0) + 1
            t = blk.term
            if t.kind == "call":
                for o in t.args:
                    if o.place is not None:
                        uses[o.place.local] = uses.get(o.place.local, 0) + 1
            if t.kind == "switch" and t.discr.place is not None:
                uses[t.discr.place.local] = uses.get(t.discr.place.local, 0) + 1
            if t.kind == "yield" and t.value.place is not None:
                uses[t.value.place.local] = uses.get(t.value.place.local, 0) + 1
        an = None
        for bb, t in b.calls():
            if b.is_noise(t) or t.dest is None or not t.dest.is_local():
                continue
            ty = b.locals[t.dest.local]
            if ty.get("adt") in ("std::result::Result", "core::result::Result"):
                n += 1
                if t.dest.local != 0 and uses.get(t.dest.local, 0) == 0:
                    bad.append((k, cname(t) or dname(t), site(b, bb)))
            nm = cname(t) or dname(t)
            if nm.endswith(("Result::<T, E>::ok", "Result::<T, E>::unwrap_or_default", "Result::<T, E>::unwrap_or", "Result::<T, E>::unwrap_or_else")):
                an = an or ctx.an(b)
                e = arg(an, bb, t, 0)
                if [c for c in calls_in(e) if flow.short(c[1]).split("::")[-1].startswith("read")]:
                    lossy.append((k, nm.split("::")[-1], site(b, bb)))
    ctx.floor(R, "fallible calls on the input path", n, 80)
    ctx.check(not bad, R, "C04/error-discipline/results-consumed", "", reason="Result values dropped unexamined: %s" % bad[:5],
              detail="%d Result-producing calls, every result is consumed" % n)
    ctx.check(not lossy, R, "C04/error-discipline/no-silent-defaults", "", reason="read errors are swallowed: %s" % lossy[:5], detail="no .ok()/unwrap_or on a read result")
    # From<passage_packets::Error>: every variant mapped to a returned Error
    fb = [b for b in ctx.prog.find_bodies(r"^passage_protocol::error::\{impl#\d+\}::from$") if "passage_packets::Error" in b.name]
    ctx.exact(R, "From<passage_packets::Error> for Error", len(fb), 1)
    if len(fb) == 1:
        an = ctx.an(fb[0])
        sw = [blk for blk in fb[0].blocks if blk.term.kind == "switch" and not blk.cleanup]
        labs = set()
        for blk in sw:
            e, ls = an.switch_info(blk.idx)
            for l in ls.values():
                labs.update(x for x in l if x != "otherwise")
        adt = ctx.prog.adts.get("passage_packets::Error")
        want = set(v["name"] for v in adt["variants"]) if adt else set()
        ctx.check(labs >= want and bool(want), R, "C04/error-discipline/all-decode-errors-mapped", fb[0].loc,
                  reason="decode error variants %s are not all mapped (mapped: %s)" % (sorted(want), sorted(labs)), detail="all %d passage_packets::Error variants are mapped" % len(want))


# ---- C04/eof-terminates -------------------------------------------------------------------------
def sccs(succ, nodes):
    index = {}
    low = {}
    stack = []
    on = set()
    out = []
    counter = [0]
    import sys as _s
    _s.setrecursionlimit(100000)

    def strong(v):
        work = [(v, iter(succ[v]))]
        index[v] = low[v] = counter[0]
        counter[0] += 1
        stack.append(v)
        on.add(v)
        while work:
            node, it = work[-1]
            adv = False
            for w in it:
                if w not in index:
                    index[w] = low[w] = counter[0]
                    counter[0] += 1
                    stack.append(w)
                    on.add(w)
                    work.append((w, iter(succ[w])))
                    adv = True
                    break
                elif w in on:
                    low[node] = min(low[node], index[w])
            if adv:
                continue
            work.pop()
            if work:
                low[work[-1][0]] = min(low[work[-1][0]], low[node])
            if low[node] == index[node]:
                comp = []
                while True:
                    w = stack.pop()
                    on.discard(w)
                    comp.append(w)
                    if w == node:
                        break
                out.append(comp)
    for v in nodes:
        if v not in index:
            strong(v)
    return out


def loops(ctx):
    R = "C04/eof-terminates"
    targets = [LISTEN, KEEP, RECV, r"^passage_packets::reader::\{impl#0\}::\w+::\{closure#0\}$", r"^passage_packets::writer::\{impl#0\}::write_var\w+::\{closure#0\}$",
               r"^passage_protocol::crypto::stream::\{impl#\d+\}::poll_(read|write)$"]
    n = 0
    bodies = []
    for rx in targets:
        for b in ctx.prog.find_bodies(rx):
            if b not in bodies:
                bodies.append(b)
    # async blocks and closures written inside those functions are part of them
    i0 = 0
    while i0 < len(bodies):
        for c in ctx.prog.children(bodies[i0].key):
            if c not in bodies and c.kind in ("Closure", "SyntheticCoroutineBody"):
                bodies.append(c)
        i0 += 1
    for b in bodies:
        if True:
            an = ctx.an(b)
            nodes = [blk.idx for blk in b.blocks if not blk.cleanup]
            comps = [c for c in sccs(b.succ, nodes) if len(c) > 1 or (c and c[0] in b.succ[c[0]])]
            aw = awaits(ctx, b)
            await_bbs = set(a[0] for a in aw)
            for comp in comps:
                cs = set(comp)
                # the await poll loop itself (Pending -> yield -> poll again) is not a program loop
                calls_in_comp = [(bb, b.blocks[bb].term) for bb in comp if b.blocks[bb].term.kind == "call" and not b.is_noise(b.blocks[bb].term)]
                names = [cname(t) or dname(t) for _, t in calls_in_comp]
                real = [cname(t) or dname(t) for _, t in calls_in_comp
                        if not dname(t).endswith(("Future::poll", "Pin::<Ptr>::new_unchecked", "future::get_context", "Pin::<Ptr>::new", "Pin::new_unchecked"))]
                if not real and any(b.blocks[bb].term.kind == "yield" for bb in comp):
                    continue
                if not real and all(b.is_noise(b.blocks[bb].term) or b.blocks[bb].term.kind in ("goto", "switch", "falseedge", "falseunwind", "drop") for bb in comp):
                    continue
                n += 1
                where = site(b, min(comp))
                key = "C04/eof-terminates/%s@%s" % (b.key.split("::")[-2 if b.key.endswith("{closure#0}") else -1].replace("{closure#0}", ""), len(comp))
                key = "C04/eof-terminates/%s/loop{%s}" % (re.sub(r"::\{closure#\d+\}", "", b.key).split("::", 1)[1],
                                                          ",".join(sorted(set(re.sub(r"::\{closure#\d+\}", "", x).split("::")[-1] for x in real))[:5]))
                iters = [x for x in names if x.endswith("Iterator::next") or x.endswith("::next")]
                bounded = False
                for bb, t in calls_in_comp:
                    if (cname(t) or dname(t)).endswith(("Iterator::next", "::next")):
                        nb = t.target
                        if b.blocks[nb].term.kind == "switch":
                            info = an.switch_info(nb)
                            exits = [tb for tb, l in info[1].items() if "None" in l and tb not in cs]
                            # `None` leaves the loop (possibly through a few straight blocks)
                            if not exits:
                                for tb, l in info[1].items():
                                    if "None" in l:
                                        cur = tb
                                        for _ in range(6):
                                            if cur not in cs:
                                                exits.append(cur)
                                                break
                                            ss = b.succ[cur]
                                            if len(ss) != 1:
                                                break
                                            cur = ss[0]
                            bounded = bounded or bool(exits)
                reads_exit = False
                silent_eof = []
                for bb, kind, name, info in aw:
                    if bb in cs and (kind in ("ws", "select") or name.split("::")[-1].startswith("read")):
                        reads_exit = True   # its `?` (Break edge) leaves the loop: checked next
                        errs = []
                        for tb, t in calls(b, "Try::branch"):
                            if tb in cs:
                                nb = t.target
                                if b.blocks[nb].term.kind == "switch":
                                    info2 = an.switch_info(nb)
                                    errs += [x for x, l in info2[1].items() if "Break" in l]
                        reads_exit = any(not _stays(b, x, cs) for x in errs)
                        # `read` / `read_buf` report the end of the stream as Ok(0), not as an error: a loop that keeps calling them must
                        # leave on a zero count
                        if kind == "ext" and name.split("::")[-1] in ("read", "read_buf", "read_vectored") and reads_exit:
                            zero_exit = False
                            for blk2 in b.blocks:
                                if blk2.idx in cs and blk2.term.kind == "switch" and not b.is_noise(blk2.term):
                                    e2, ls2 = an.switch_info(blk2.idx)
                                    x2 = flow.strip(e2)
                                    if x2[0] == "binop" and x2[1] in ("Eq", "Ne", "Gt", "Lt", "Le", "Ge") and (int_value(x2[2]) == 0 or int_value(x2[3]) == 0) \
                                            and [c for c in calls_in(x2) if flow.short(c[1]).split("::")[-1] in ("read", "read_buf", "read_vectored")] \
                                            and any(tb not in cs for tb in ls2):
                                        zero_exit = True
                            silent_eof.append((name.split("::")[-1], zero_exit))
                value_loop = any(x.split("::")[-1] in ("write_all", "write_u8") for x in names) and bool(find_all(("x",), lambda y: False) or True) and \
                    b.key.startswith("passage_packets::writer::")
                if value_loop:
                    # write_varint: terminates when the logically shifted value reaches 0 (C09/primitives-shape/*/loop)
                    ctx.ok(R, key, where, "value-driven loop: shifts right by 7 until 0 (shape checked by C09)")
                    continue
                # every cycle of the loop must pass an input-dependent step: a stream-reading await or an iterator step.
                # (yield blocks are removed so that the poll loop of an await is not itself counted as a cycle)
                cutb = set(bb for bb in comp if b.blocks[bb].term.kind == "yield")
                for bb, t in calls_in_comp:
                    if (cname(t) or dname(t)).endswith(("Iterator::next", "::next")):
                        cutb.add(bb)
                for bb, kind, name, info in aw:
                    if bb in cs and (kind == "select" or kind == "ws" or name.split("::")[-1].startswith("read")):
                        reads_stream = kind == "select" and any("read" in render(f, maxdepth=2) for f in info[2])
                        if kind == "ws":
                            from .c08 import Safety
                            reads_stream = Safety(ctx).stream_touching(info) is not None
                        if kind == "ext":
                            reads_stream = True
                        if reads_stream:
                            cutb.add(bb)
                rest = [x for x in comp if x not in cutb]
                sub = {x: [y for y in b.succ[x] if y in cs and y not in cutb] for x in rest}
                spin = [c for c in sccs(sub, rest) if len(c) > 1 or (c and c[0] in sub[c[0]])]
                ctx.check(not spin, R, key + "/every-cycle-reads", where,
                          reason="the loop in %s has a cycle (%s) that passes neither a stream read nor an iterator step: it can keep running without consuming client input"
                                 % (b.key, [site(b, x) for x in sorted(spin[0])[:3]] if spin else ""),
                          detail="every cycle passes a stream read or an iterator step")
                ctx.check(all(z for _, z in silent_eof), R, key + "/eof-is-zero-count", where,
                          reason="the loop in %s keeps calling %s, which reports the client's end of stream as Ok(0) rather than an error, and never leaves on a "
                                 "zero count: after EOF it spins forever" % (b.key, sorted(set(nm for nm, _ in silent_eof))),
                          detail="no read()/read_buf() loop without a zero-count exit")
                ctx.check(bounded or reads_exit, R, key,
                          reason="loop in %s (%d blocks, calls %s) is neither iterator-bounded nor left on a failed stream read: it could spin after the client's end of stream"
                                 % (b.key, len(comp), sorted(set(x.split("::")[-1] for x in real))[:6]),
                          detail="loop is %s" % ("iterator-bounded" if bounded else "left when a stream read fails (EOF)"))
    # a loop rewritten as internal iteration (`for_each`, `fold`, ..) is still an iteration the rule has seen: those calls are
    # iterator-bounded by construction and count towards the anchor
    internal = 0
    for k, b in sorted(ctx.prog.lib_bodies.items()):
        if in_scope(k, b):
            internal += len([1 for bb, t in b.calls() if not b.is_noise(t) and
                             (cname(t) or dname(t)).split("::")[-1] in ("for_each", "fold", "try_for_each", "try_fold", "for_each_mut")])
    ctx.floor(R, "program loops (and internal iterations) on the input path", n + internal, 8)


def _stays(b, bb, cs):
    """does control from bb necessarily stay inside the SCC? (False = there is a way out without coming back)"""
    seen = set()
    work = [bb]
    while work:
        x = work.pop()
        if x in seen:
            continue
        seen.add(x)
        if x not in cs:
            return False
        work.extend(b.succ[x])
    return True


def _cells(e):
    return set((x[1], x[2]) for x in find_all(e, lambda y: y[0] == "cell"))


def _payload_guarded(ctx, b, bb):
    an = ctx.an(b)
    g = ctx.graph(b)
    t = b.blocks[bb].term
    subj = an.operand_expr(t.args[0], (bb, "term"))
    sc = _cells(subj)
    ss = flow.strip(subj)
    for blk in b.blocks:
        if blk.cleanup or blk.term.kind != "switch" or b.is_noise(blk.term):
            continue
        e, ls = an.switch_info(blk.idx, opt=True)
        x = flow.strip(e)
        if x[0] == "call" and flow.short(x[1]).endswith(("Result::<T, E>::is_ok", "Result::is_ok")) and x[3]:
            e = x[3][0]
            ls = {tb: (["Ok"] if "true" in l else ["Err"]) for tb, l in ls.items()}
        same = (sc and _cells(e) == sc) or flow.strip(e) == ss
        if not same:
            continue
        good = [(blk.idx, tb) for tb, l in ls.items() if "Some" in l or "Ok" in l]
        if good and g.must_pass(bb, cut_edges=good)[0]:
            return True
    return False

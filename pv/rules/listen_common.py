"""Shared facts about Connection::listen used by C01, C02, C03, C07, C10, C14, C15."""
import re
from ..lib import *  # noqa: F401,F403
from .. import events, flow

LISTEN = r"^passage_protocol::connection::\{impl#\d+\}::listen::\{closure#0\}::\{closure#0\}$"
RECV = r"^passage_protocol::connection::\{impl#\d+\}::receive_packet::\{closure#0\}::\{closure#0\}$"
KEEP = r"^passage_protocol::connection::\{impl#\d+\}::keep_alive::\{closure#0\}$"

GRANTS = ("send:login::clientbound::LoginSuccess", "send:configuration::clientbound::Transfer",
          "send:configuration::clientbound::StoreCookie[passage:authentication]",
          "send:configuration::clientbound::StoreCookie[passage:session]",
          "call:discover", "call:filter", "call:select")


class Listen(object):
    def __init__(self, ctx, rule):
        self.ctx = ctx
        self.body = ctx.body(LISTEN, rule=rule)
        self.ok = self.body is not None
        if not self.ok:
            return
        self.an = ctx.an(self.body)
        self.ev = events.extract(ctx, self.body)
        self.flag = self._find_flag()
        self.g = ctx.graph(self.body)
        self.gf = flow.Graph(self.body, flags=[self.flag]) if self.flag is not None else None

    # ---- events --------------------------------------------------------------------------
    def sites(self, names):
        """[(bb, event, site)] of events whose name is in `names` (str or tuple)"""
        if isinstance(names, str):
            names = (names,)
        out = []
        for bb, es in sorted(self.ev.items()):
            for pos, e, st in es:
                if e in names:
                    out.append((bb, e, st))
        return out

    def event_bbs(self, prefix):
        return [bb for bb, es in self.ev.items() if any(e[1].startswith(prefix) for e in es)]

    def call(self, suffix):
        return calls(self.body, suffix)

    def keep_alive_ok_edges(self):
        """Continue edges of `?` applied to keep_alive()'s result inside a select!: infeasible, because
        keep_alive() never returns Ok (decided by C07/raced/never-ok, re-checked by every user of this)"""
        out = []
        for bb, t in calls(self.body, "Connection::keep_alive"):
            for swb, okt, errt in try_edges(self.an, bb):
                out.append((swb, okt))
        return out

    def keep_alive_never_ok(self):
        kb = self.ctx.body(KEEP, rule="C07/raced")
        if kb is None:
            return False
        ev = events.extract(self.ctx, kb)
        return not any(e[1] in ("ret:ok", "ret:?") for es in ev.values() for e in es)

    def send_agg(self, tname_suffix, key=None):
        """[(bb, term, aggregate expr)] for send_packet::<T> sites with T ending in tname_suffix"""
        out = []
        for bb, t in calls(self.body, "Connection::send_packet"):
            T = t.callee["gargs"][-1]
            if not T.endswith(tname_suffix):
                continue
            e = flow.strip(arg(self.an, bb, t, 1))
            if key is not None and events._key_of(e) != key:
                continue
            out.append((bb, t, e))
        return out

    # ---- the should_authenticate flag ------------------------------------------------------
    def _find_flag(self):
        """local holding `should_authenticate`: the operand of EncryptionRequestPacket.should_authenticate"""
        body = self.body
        for bb, t in calls(body, "Connection::send_packet"):
            if not t.callee["gargs"][-1].endswith("EncryptionRequestPacket"):
                continue
            # find the aggregate statement
            for b in body.blocks:
                if b.cleanup:
                    continue
                for s in b.stmts:
                    if s.kind == "assign" and s.rv.k == "agg" and s.rv.j.get("adt", "").endswith("EncryptionRequestPacket"):
                        names = s.rv.j["fields"]
                        if "should_authenticate" in names:
                            op = s.rv.ops[names.index("should_authenticate")]
                            if op.place is not None and op.place.is_local():
                                l = op.place.local
                                # follow one copy
                                ds = self.an.defs.get(l, [])
                                if len(ds) == 1 and hasattr(ds[0][2], "rv") and ds[0][2].rv.k == "use" \
                                        and ds[0][2].rv.ops[0].place is not None and ds[0][2].rv.ops[0].place.is_local():
                                    return ds[0][2].rv.ops[0].place.local
                                return l
        return None

    def flag_defs(self):
        """[(bb, idx, const_bool or None)] assignments to the flag"""
        out = []
        for bb, idx, item in self.an.defs.get(self.flag, []):
            v = None
            if hasattr(item, "rv") and item.rv.k == "use":
                v = item.rv.ops[0].const_bool()
            out.append((bb, idx, v))
        return out

    # ---- refined reaching definitions of a cell --------------------------------------------
    def cell_defs(self, local, field):
        """definitions of local[.field]: [(bb, idx, item)]"""
        out = []
        for bb, idx, item in self.an.defs.get(local, []):
            pl = item.place if hasattr(item, "place") and item.place is not None else getattr(item, "dest", None)
            if pl is None:
                # yield resume arg etc.
                out.append((bb, idx, item))
                continue
            dp = pl.proj
            if not dp or field is None:
                out.append((bb, idx, item))
            elif isinstance(dp[0], dict) and dp[0].get("n") == field:
                out.append((bb, idx, item))
        return out

    def reaching(self, graph, local, field, use_bb, val_pred=None):
        """definitions of the cell reaching use_bb in the (refined) graph, restricted to use nodes whose flag
        valuation satisfies val_pred: [(bb, idx, item, expr)]"""
        defs = self.cell_defs(local, field)
        def_bbs = set(d[0] for d in defs)
        out = []
        goal_nodes = [n for n in graph.nodes_of_bb(use_bb) if val_pred is None or val_pred(graph.val(n))]
        if not goal_nodes:
            return out
        goal_set = set(goal_nodes)
        for bb, idx, item in defs:
            # forward from the successors of the def block, cutting at other def blocks (they kill)
            starts = []
            for n in graph.nodes_of_bb(bb):
                starts.extend(graph.succ[n])
            others = def_bbs - {bb}
            # a whole-struct def also kills field defs and vice versa; partial defs of *other* fields were
            # filtered by cell_defs already
            reach = graph.reachable(starts, cut_nodes=others)
            if reach & goal_set:
                e = self.an._def_value(item, (bb, idx), 0)
                pl = item.place if hasattr(item, "place") and item.place is not None else getattr(item, "dest", None)
                if field is not None and pl is not None and not pl.proj:
                    e = self.an._field(e, field)
                out.append((bb, idx, item, e))
        return out

    def refine(self, graph, e, use_bb, val_pred=None, depth=0):
        """replace every ("cell", l, f, _) inside e by the phi of its refined reaching definitions"""
        if depth > 6 or not isinstance(e, tuple) or not e or not isinstance(e[0], str):
            return e
        if e[0] == "cell":
            rd = self.reaching(graph, e[1], e[2], use_bb, val_pred)
            vals = [self.refine(graph, x[3], x[0], None, depth + 1) for x in rd]
            if not vals:
                return ("unknown", "no reaching def for cell _%s.%s" % (e[1], e[2]))
            return self.an._phi(vals)
        out = []
        for x in e:
            if isinstance(x, tuple):
                if x and isinstance(x[0], str) and x[0] in flow.KINDS:
                    out.append(self.refine(graph, x, use_bb, val_pred, depth))
                else:
                    out.append(tuple(self.refine(graph, y, use_bb, val_pred, depth) if isinstance(y, tuple) and y and isinstance(y[0], str) and y[0] in flow.KINDS
                                     else (tuple(self.refine(graph, z, use_bb, val_pred, depth) if isinstance(z, tuple) else z for z in y) if isinstance(y, tuple) else y)
                                     for y in x))
            else:
                out.append(x)
        return tuple(out)


def classify_identity(e):
    """classify the origin of an identity value: ('auth', field) | ('cookie', field) | ('claim', field) |
    ('init', None) | ('other', text)"""
    x = flow.strip(e)
    root, fs = field_path(x)
    r = flow.strip(root)
    # peel try/await/select_out and result adapters
    for _ in range(10):
        if r[0] in ("try", "await"):
            r = flow.strip(r[1])
        elif r[0] == "call" and flow.short(r[1]).endswith(("inspect_err", "map_err")):
            r = flow.strip(r[3][0])
        else:
            break
    f = fs[-1] if fs else None
    if r[0] == "call":
        n = flow.short(r[2] or r[1])
        d = flow.short(r[1])
        if d.endswith("AuthenticationAdapter::authenticate"):
            return ("auth", f)
        if d.endswith("serde_json::from_slice") and r[5] and r[5][-1].endswith("cookie::AuthCookie"):
            return ("cookie", f)
        if d.endswith("ReadPacket::read_from_buffer") and r[5] and r[5][0].endswith("LoginStartPacket"):
            return ("claim", f)
        if d.endswith(("Vec::<T>::new", "Vec::new", "vec::from_elem", "box_new", "into_vec", "Default::default")):
            return ("init", None)
        return ("other", n)
    if r[0] in ("agg", "const", "repeat"):
        return ("init", None)
    return ("other", render(r, maxdepth=2))


def leaf_values(e):
    """flatten phi alternatives, distributing field/variant projections over them"""
    e2 = e
    while e2[0] in ("ref", "deref", "mut", "cell") or (e2[0] == "call" and flow.is_transparent_call(e2) and e2[3]):
        e2 = e2[3] if e2[0] == "cell" else (e2[3][0] if e2[0] == "call" else e2[1])
    if e2[0] == "phi":
        out = []
        for x in e2[1]:
            out.extend(leaf_values(x))
        return out
    if e2[0] == "field":
        return [("field", b, e2[2]) for b in leaf_values(e2[1])]
    if e2[0] == "variant":
        return [("variant", b, e2[2]) for b in leaf_values(e2[1])]
    return [e2]


class KeepAliveMode(object):
    """receive_packet's keep-alive parameter, as a two-valued mode whichever type spells it: `bool` on the pinned tree, possibly
    a small fieldless enum after a refactoring. A value "enables" if the Keep Alive send in receive_packet is reachable with it;
    call sites are classified by the value they pass (events `rp:true` / `rp:false`)."""

    def __init__(self, ctx):
        self.ctx = ctx
        self.rb = ctx.body(RECV, required=False)
        self.kind = None
        self.values = []
        self.enabling = set()
        self.cmp_calls = {}
        if self.rb is None:
            return
        rb = self.rb
        an = ctx.an(rb)
        self.flag = ctx.captured_flag(rb, "keep_alive")
        # type of the parameter: from the fn body (second parameter)
        fnb = ctx.prog.bodies.get(re.sub(r"(::\{closure#\d+\})+$", "", rb.key))
        ty = fnb.locals[2].get("s", "") if fnb is not None and len(fnb.locals) > 2 else "bool"
        if ty == "bool":
            self.kind = "bool"
            self.values = [True, False]
        else:
            adt = ctx.prog.adts.get(ty)
            if adt is not None and adt.get("kind") == "Enum" and all(not v.get("fields") for v in adt.get("variants", [])) and len(adt["variants"]) == 2:
                self.kind = "enum"
                self.names = [v["name"] for v in adt["variants"]]
                self.values = [("tag", 0), ("tag", 1)]
                # comparisons of the parameter with a variant literal
                for bb, t in rb.calls():
                    nm = (cname(t) or dname(t)).split("::")[-1]
                    if nm in ("eq", "ne") and len(t.args) == 2 and not rb.is_noise(t):
                        a = [flow.strip(arg(an, bb, t, k)) for k in range(2)]
                        par = [x for x in a if x[0] == "field" and flow.strip(x[1])[0] == "env" and x[2] == self.flag[1]]
                        lit = [x for x in a if x[0] == "agg" and x[1].rsplit("::", 1)[0] == ty]
                        if par and lit:
                            self.cmp_calls[bb] = (self.names.index(lit[0][1].rsplit("::", 1)[1]), nm == "ne")
        if self.kind is None:
            return
        ev = events.extract(ctx, rb, _mode=False)
        sends = [bb for bb, es in ev.items() for _, e, _ in es if e == "send:configuration::clientbound::KeepAlive"]
        for v in self.values:
            g = self.graph(v)
            reach = set(g.bb(n) for n in g.reachable())
            if any(bb in reach for bb in sends):
                self.enabling.add(self._key(v))

    @staticmethod
    def _key(v):
        return v[1] if isinstance(v, tuple) else v

    def graph(self, value):
        rb = self.rb
        extra = [self.flag]
        callhook = None
        if self.kind == "enum":
            for bb in self.cmp_calls:
                t = rb.blocks[bb].term
                if t.dest is not None and t.dest.is_local():
                    extra.append(t.dest.local)

            def callhook(bb, t, value=value):
                c = self.cmp_calls.get(bb)
                if c is None:
                    return None
                return (c[0] == value[1]) != c[1]
        return self.ctx.graph_with(rb, extra, pinned={self.flag: value}, callhook=callhook)

    def on(self):
        """graph for an enabling value / a disabling value"""
        vs = [v for v in self.values if self._key(v) in self.enabling]
        return self.graph(vs[0]) if vs else None

    def off(self):
        vs = [v for v in self.values if self._key(v) not in self.enabling]
        return self.graph(vs[0]) if vs else None

    def classify(self, e):
        """'true' / 'false' / '?' for the argument expression of a receive_packet call"""
        x = flow.strip(e)
        if self.kind == "bool":
            if x[0] == "const" and isinstance(x[2], bool):
                return "true" if x[2] in self.enabling else "false"
            return "?"
        if self.kind == "enum" and x[0] == "agg" and x[1].rsplit("::", 1)[-1] in self.names:
            return "true" if self.names.index(x[1].rsplit("::", 1)[-1]) in self.enabling else "false"
        return "?"

"""C02 — Authentication is skipped only for a valid, unexpired, same-IP signed cookie (DESIGN §5 C02)."""
from ..lib import *  # noqa: F401,F403
from .. import flow
from .listen_common import Listen

EXPLANATION = ("single accept point of the should_authenticate flag in Connection::listen; cut queries show it is "
               "dominated by each of: next_state == Transfer (true), auth_secret is Some, cookie payload is Some, "
               "cookie::verify(payload, secret).0 == true, from_slice::<AuthCookie>(verified message) Ok, "
               "cookie ip == client ip, timestamp + expiry >= now; operand provenance of each atom; shape of "
               "cookie::verify (length guard, HMAC-SHA256 keyed with the secret over signed[32..], constant-time "
               "compare with signed[..32], message = signed[32..])")
DECIDED = [
    "exactly one definition of should_authenticate other than `true` (the accept point); EncryptionRequest.should_authenticate and the guard of authenticate read that flag",
    "the accept point is dominated by all seven acceptance conditions, each over the right operands (payload of the auth-cookie response, self.auth_secret, self.client_address, self.auth_cookie_expiry, SystemTime::now)",
    "after acceptance the identity cells are assigned from the parsed cookie only (with C01/identity-flow)",
    "cookie::verify: false when shorter than 32 bytes; MAC keyed with the secret parameter, updated with signed[32..], verified against signed[..32] with Mac::verify_slice; returns signed[32..]",
]
UNDECIDED = ["HMAC-SHA256 itself", "wall-clock behaviour"]
TRUSTED = ["hmac::Mac::verify_slice is a constant-time full-length comparison", "serde_json::from_slice"]


def check(ctx):
    R = "C02/accept-point"
    L = Listen(ctx, R)
    if not L.ok:
        return
    body, an, g = L.body, L.an, L.g
    if L.flag is None:
        ctx.fail(R, "C02/accept-point/flag", body.loc, "anchor-missing: should_authenticate flag not found")
        return
    fdefs = L.flag_defs()
    trues = [d for d in fdefs if d[2] is True]
    falses = [d for d in fdefs if d[2] is False]
    others = [d for d in fdefs if d[2] is None]
    ctx.check(len(trues) == 1 and len(falses) == 1 and not others, R, "C02/accept-point/single", body.loc,
              reason="should_authenticate has %d `true`, %d `false`, %d non-constant definitions; expected 1/1/0"
                     % (len(trues), len(falses), len(others)),
              detail="flag: one `true` initialiser, one `false` accept point")
    if len(falses) != 1:
        return
    acc_bb = falses[0][0]
    acc_site = body.site(body.blocks[acc_bb].stmts[falses[0][1]])
    # the initialiser dominates everything that reads the flag (EncryptionRequest / authenticate guard)
    init_bb = trues[0][0] if trues else None
    # who reads the flag: switch guards
    readers = []
    for b in body.blocks:
        if b.cleanup:
            continue
        if b.term.kind == "switch" and not body.is_noise(b.term):
            fl = L.gf._switch_flag(b)
            if fl is not None:
                readers.append(b.idx)
    ctx.floor(R, "branches on should_authenticate (authenticate guard, auth-cookie issue guard)", len(readers), 2, body.loc)
    aus = L.call("AuthenticationAdapter::authenticate")
    if len(aus) == 1:
        abb = aus[0][0]
        # authenticate guarded by a reader's true edge
        okk = False
        for rb in readers:
            t = body.blocks[rb].term
            true_targets = [tb for v, tb in t.arms if v != 0] or [t.otherwise]
            p, _ = g.must_pass(abb, cut_edges=[(rb, tb) for tb in true_targets])
            if p:
                okk = True
        ctx.check(okk, R, "C02/accept-point/guards-authenticate", site(body, abb),
                  reason="authenticate is not guarded by should_authenticate", detail="authenticate behind `if should_authenticate`")

    # ---- C02/accept-guards
    RG = "C02/accept-guards"
    sw = []
    for b in body.blocks:
        if b.cleanup or b.term.kind != "switch" or body.is_noise(b.term):
            continue
        info = an.switch_info(b.idx, opt=True)
        sw.append((b.idx, info[0], info[1]))

    def need(key, pred, label, what):
        """accept point must be dominated by the `label` edge of (one of) the switches matching pred"""
        ms = [(bb, e, ls) for bb, e, ls in sw if pred(e)]
        if not ms:
            ctx.fail(RG, "C02/accept-guards/" + key, acc_site,
                     "anchor-missing: no branch on `%s` found before the accept point" % what)
            return None
        edges = []
        for bb, e, ls in ms:
            edges += [(bb, tb) for tb, l in ls.items() if label in l]
        okk, p = g.must_pass(acc_bb, cut_edges=edges)
        ctx.check(okk and bool(edges), RG, "C02/accept-guards/" + key, acc_site,
                  reason="authentication can be skipped without `%s` being %s" % (what, label),
                  detail="accept point dominated by %s = %s" % (what, label),
                  witness=[site(body, x) for x in (p or [])[-8:]])
        return ms

    def is_eq_state(e, variant):
        if e[0] == "call" and flow.short(e[1]).endswith("PartialEq::eq"):
            a0, a1 = flow.strip(e[3][0]), flow.strip(e[3][1])
            if field_path(a0)[1][-1:] == ["next_state"] and a1[0] == "agg" and a1[1].endswith("State::" + variant):
                src = flow.strip(field_path(a0)[0])
                return True
        return False

    # `next_state == State::Transfer` as a comparison, or `match next_state { State::Transfer => .. }`
    if [1 for bb, e, ls in sw if is_eq_state(e, "Transfer")]:
        need("intent-transfer", lambda e: is_eq_state(e, "Transfer"), "true", "handshake.next_state == State::Transfer")
    else:
        need("intent-transfer", lambda e: field_path(e)[1][-1:] == ["next_state"] and e[0] != "call", "Transfer", "handshake.next_state == State::Transfer")
    # secret configured: either `is_none()` false edge or a Some-pattern on self.auth_secret
    ms1 = []
    ms2 = [(bb, e, ls) for bb, e, ls in sw if self_field(e) == "auth_secret" and any("Some" in l for l in ls.values())]
    edges = []
    for bb, e, ls in ms1:
        edges += [(bb, tb) for tb, l in ls.items() if "false" in l]
    for bb, e, ls in ms2:
        edges += [(bb, tb) for tb, l in ls.items() if "Some" in l]
    okk, p = g.must_pass(acc_bb, cut_edges=edges) if ms2 else (False, None)
    ctx.check(okk, RG, "C02/accept-guards/secret-configured", acc_site,
              reason="authentication can be skipped with no auth_secret configured",
              detail="accept point dominated by self.auth_secret is Some")

    def is_payload(e):
        root, fs = field_path(e)
        if fs[-1:] != ["payload"]:
            return False
        return _is_auth_cookie_response(L, root)
    need("payload-present", is_payload, "Some", "<auth CookieResponse>.payload is Some")

    def is_verify(e):
        return e[0] == "field" and e[2] == "0" and flow.strip(e[1])[0] == "call" \
            and flow.short(flow.strip(e[1])[1]).endswith("cookie::verify")
    mv = need("tag-valid", is_verify, "true", "cookie::verify(signed, secret).0")
    verify_site = None
    if mv:
        c = flow.strip(mv[0][1][1])
        verify_site = c[4]
        signed, secret = c[3][0], c[3][1]
        r, fs = field_path(signed)
        ok_s = fs[-2:] == ["payload", "0"] and _is_auth_cookie_response(L, r)
        ctx.check(ok_s, RG, "C02/accept-guards/verify-operand-signed", site(body, verify_site),
                  reason="cookie::verify is applied to %s, not the payload of the auth-cookie response" % render(signed, maxdepth=5),
                  detail="verify(signed = auth CookieResponse.payload)")
        r2, fs2 = field_path(secret)
        ok_k = self_field(("field", r2, fs2[0]) if False else _first_self_field(secret)) == "auth_secret"
        ctx.check(ok_k, RG, "C02/accept-guards/verify-operand-secret", site(body, verify_site),
                  reason="cookie::verify is keyed with %s, not self.auth_secret" % render(secret, maxdepth=5),
                  detail="verify(secret = self.auth_secret)")
    # parse Ok edge
    fs_calls = [(bb, t) for bb, t in L.call("serde_json::from_slice") if (garg(t, -1) or t.callee["gargs"][-1]).endswith("cookie::AuthCookie")]
    ctx.exact(RG, "serde_json::from_slice::<AuthCookie> in listen", len(fs_calls), 1, body.loc)
    parse_site = None
    if len(fs_calls) == 1:
        pbb, pt = fs_calls[0]
        parse_site = pbb
        te = try_edges(an, pbb)
        ctx.check(len(te) == 1, RG, "C02/accept-guards/json-checked", site(body, pbb),
                  reason="from_slice::<AuthCookie> result is not consumed through `?`", detail="from_slice(..)?")
        if len(te) == 1:
            okk, p = g.must_pass(acc_bb, cut_edges=[(te[0][0], te[0][1])])
            ctx.check(okk, RG, "C02/accept-guards/json-ok", acc_site,
                      reason="authentication can be skipped without the cookie body parsing as AuthCookie",
                      detail="accept point dominated by from_slice Ok edge")
        m = flow.strip(arg(an, pbb, pt, 0))
        okm = m[0] == "field" and m[2] == "1" and flow.strip(m[1])[0] == "call" and flow.strip(m[1])[4] == verify_site
        ctx.check(okm, RG, "C02/accept-guards/json-operand", site(body, pbb),
                  reason="AuthCookie is parsed from %s, not from the message returned by the tag check" % render(m, maxdepth=4),
                  detail="from_slice(verify(..).1)")

    def cookie_field(e, f):
        r, fs = field_path(e)
        r = flow.strip(r)
        if fs[:1] != [f]:
            return False
        if r[0] == "try":
            c = flow.strip(r[1])
            return c[0] == "call" and c[4] == parse_site
        return False

    def is_ip_cmp(e):
        if e[0] == "call" and flow.short(e[1]).endswith(("PartialEq::ne", "PartialEq::eq")):
            a, b = flow.strip(e[3][0]), flow.strip(e[3][1])
            if a[0] == "call" and b[0] == "call" and flow.short(a[1]).endswith("SocketAddr::ip") and flow.short(b[1]).endswith("SocketAddr::ip"):
                x, y = a[3][0], b[3][0]
                return (cookie_field(x, "client_addr") and self_field(y) == "client_address") or \
                       (cookie_field(y, "client_addr") and self_field(x) == "client_address")
        return False
    ipm = [(bb, e, ls) for bb, e, ls in sw if is_ip_cmp(e)]
    if ipm:
        lab = "false" if flow.short(ipm[0][1][1]).endswith("ne") else "true"
        need("same-ip", is_ip_cmp, lab, "cookie.client_addr.ip() == self.client_address.ip()")
    else:
        ctx.fail(RG, "C02/accept-guards/same-ip", acc_site,
                 "anchor-missing: no comparison of cookie.client_addr.ip() with self.client_address.ip() guards the accept point")

    def fresh_atom(e):
        """returns the label under which the cookie is fresh, or None"""
        if e[0] != "binop" or e[1] not in ("Lt", "Le", "Gt", "Ge"):
            return None
        a, b = flow.strip(e[2]), flow.strip(e[3])

        def is_exp(x):
            x = flow.strip(x)
            if x[0] == "field" and x[2] == "0":
                x = flow.strip(x[1])
            if x[0] == "binop" and x[1] in ("AddWithOverflow", "Add", "AddUnchecked"):
                p, q = x[2], x[3]
                return (cookie_field(p, "timestamp") and self_field(q) == "auth_cookie_expiry") or \
                       (cookie_field(q, "timestamp") and self_field(p) == "auth_cookie_expiry")
            if x[0] == "call" and flow.short(x[1]).endswith(("saturating_add", "checked_add", "wrapping_add")):
                p, q = x[3][0], x[3][1]
                return (cookie_field(p, "timestamp") and self_field(q) == "auth_cookie_expiry") or \
                       (cookie_field(q, "timestamp") and self_field(p) == "auth_cookie_expiry")
            return False

        def is_now(x):
            if not find_all(x, lambda y: y[0] in ("constitem", "const", "static") and "UNIX_EPOCH" in str(y[1:])):
                # possibly behind a helper fn: look into small workspace helpers
                hs = deep_calls(ctx.prog, x, "SystemTime::now")
                return bool(hs) and bool(deep_calls(ctx.prog, x, "Duration::as_secs"))
            return bool(calls_in(x, "SystemTime::now")) and bool(calls_in(x, "Duration::as_secs"))
        op = e[1]
        if is_exp(a) and is_now(b):
            # exp OP now : fresh iff exp >= now
            return {"Lt": "false", "Ge": "true"}.get(op, "strict:" + op)
        if is_now(a) and is_exp(b):
            return {"Gt": "false", "Le": "true"}.get(op, "strict:" + op)
        return None
    fm = [(bb, e, ls, fresh_atom(e)) for bb, e, ls in sw if fresh_atom(e)]
    # the clock is read when the cookie is examined, not earlier in the connection
    for bb, e, ls, lab in fm:
        nows = [c[0][4] for c in deep_calls(ctx.prog, e, "SystemTime::now")]
        recv = [c for c in calls_in(e) if c[5] and c[5][0].endswith("login::serverbound::CookieResponsePacket")]
        reqs = L.sites("send:login::clientbound::CookieRequest[passage:authentication]")
        okn = bool(nows) and bool(reqs) and all(always_before(g, reqs[0][0], nb) for nb in nows)
        ctx.check(okn, RG, "C02/accept-guards/now-is-current", site(body, bb),
                  reason="the expiry test uses a clock reading taken at %s, before the cookie was even requested" % [site(body, nb) for nb in nows],
                  detail="expiry compared against a clock reading taken after the cookie request")
    if not fm:
        ctx.fail(RG, "C02/accept-guards/not-expired", acc_site,
                 "anchor-missing: no comparison of cookie.timestamp + self.auth_cookie_expiry with the current time guards the accept point")
    else:
        lab = fm[0][3]
        if lab.startswith("strict:"):
            ctx.fail(RG, "C02/accept-guards/not-expired", site(body, fm[0][0]),
                     "expiry comparison uses %s: a cookie exactly at its expiry is treated differently from `timestamp + expiry >= now`" % lab[7:])
        else:
            need("not-expired", lambda e: fresh_atom(e) == lab, lab, "timestamp + auth_cookie_expiry >= now")

    # the timestamp written at issue and the clock it is compared with use the same unit
    issue_units, check_units = set(), set()
    for b in body.blocks:
        if b.cleanup:
            continue
        for i, s2 in enumerate(b.stmts):
            if s2.kind == "assign" and s2.rv.k == "agg" and s2.rv.j.get("adt", "").endswith("cookie::AuthCookie") and not body.is_noise(s2):
                e2 = an.rvalue_expr(s2.rv, (b.idx, i), 0)
                ts = dict(e2[2]).get("timestamp")
                if ts is not None:
                    for c in deep_calls(ctx.prog, ts, ""):
                        n = flow.short(c[1][1]).split("::")[-1]
                        if n.startswith(("as_secs", "as_millis", "as_micros", "as_nanos", "subsec")):
                            issue_units.add(n)
    for bb, e, ls, lab in fm:
        for c in deep_calls(ctx.prog, e, ""):
            n = flow.short(c[1][1]).split("::")[-1]
            if n.startswith(("as_secs", "as_millis", "as_micros", "as_nanos", "subsec")):
                check_units.add(n)
    if fm:
        ctx.check(issue_units == check_units and len(check_units) == 1, RG, "C02/accept-guards/timestamp-unit-agrees", acc_site,
                  reason="the cookie timestamp is written with %s but the expiry test reads the clock with %s: with different units `timestamp + expiry >= now` no longer means what the configured expiry says"
                         % (sorted(issue_units), sorted(check_units)),
                  detail="issue and check both use %s" % sorted(check_units))
    # every other way out of the guard complex leaves the flag true: covered by single accept point.

    # ---- C02/identity-from-cookie
    RI = "C02/identity-from-cookie"
    want = {"user_name": "user_name", "user_id": "user_id"}
    # assignments dominated by the accept point and before the token step
    assigns = {}
    toks = L.call("crypto::generate_token")
    for b in body.blocks:
        if b.cleanup:
            continue
        for i, s in enumerate(b.stmts):
            if s.kind != "assign" or body.is_noise(s):
                continue
            if b.idx == acc_bb or (g.must_pass(b.idx, cut_nodes=[acc_bb])[0] and toks and not always_before(g, toks[0][0], b.idx)):
                e = an.rvalue_expr(s.rv, (b.idx, i), 0)
                for f in ("user_name", "user_id", "profile_properties"):
                    if cookie_field(e, f):
                        # a struct-field target must be the like-named field; a plain local may have any name
                        tgt = s.place.fields()[-1] if s.place.fields() else f
                        assigns[f] = tgt
    ctx.check(assigns == {"user_name": "user_name", "user_id": "user_id", "profile_properties": "profile_properties"}, RI,
              "C02/identity-from-cookie/assignments", acc_site,
              reason="after acceptance the identity is assigned as %s; expected the cookie's user_name, user_id, profile_properties into the like-named cells" % assigns,
              detail="identity cells <- cookie.{user_name,user_id,profile_properties}")

    # ---- C02/verify-shape
    verify_shape(ctx)


def _first_self_field(e):
    """innermost self.<field> inside e (after looking through payload projections)"""
    hits = find_all(e, lambda x: x[0] == "field" and self_field(x) is not None)
    return hits[0] if hits else e


def _is_auth_cookie_response(L, root):
    """root is the CookieResponse decoded by the receive that follows the AUTH cookie request"""
    r = flow.strip(root)
    if r[0] != "try":
        return False
    c = flow.strip(r[1])
    if c[0] == "await":
        c = flow.strip(c[1])
    if c[0] != "call" or not (c[5] and c[5][0].endswith("login::serverbound::CookieResponsePacket")):
        return False
    # the decode must come after the AUTH cookie request send
    reqs = L.sites("send:login::clientbound::CookieRequest[passage:authentication]")
    if len(reqs) != 1:
        return False
    return always_before(L.g, reqs[0][0], c[4])


def verify_shape(ctx):
    RV = "C02/verify-shape"
    vb = ctx.body(r"^passage_protocol::cookie::verify$", rule=RV)
    if vb is None:
        return
    an = ctx.an(vb)
    g = ctx.graph(vb)
    # length guard, evaluated at sample lengths (pv/sample.py): below 32 bytes nothing is sliced and no MAC is computed
    from .cookie_common import slice_norm, slicing_sites, verify_samples
    slices = slicing_sites(ctx, vb)
    S = verify_samples(ctx, vb, [32] + [n for _, _, n in slices])
    macs = [bb2 for bb2, _ in calls(vb, ("Mac::verify_slice", "Mac::new_from_slice"))]
    ctx.floor(RV, "length tests (comparisons of signed.len() with constants, checked splits) in cookie::verify", len(S.cmp) + len(S.decided_switches), 1, vb.loc)
    ctx.check(bool(macs) and all(S.reachable(32, bb2) for bb2 in macs) and not any(S.reachable(31, bb2) for bb2 in macs), RV, "C02/verify-shape/min-length", vb.loc,
              reason="expected rejection of inputs shorter than the 32-byte tag and acceptance of 32-byte inputs: MAC reachable for len 31: %s, for len 32: %s"
                     % (any(S.reachable(31, bb2) for bb2 in macs), all(S.reachable(32, bb2) for bb2 in macs)),
              detail="inputs shorter than 32 bytes rejected, 32 bytes and more are verified")
    ctx.check(not any(S.reachable(v, bb2) for v in S.reach if v < 32 for bb2 in macs), RV, "C02/verify-shape/short-rejected-early", vb.loc,
              reason="short input still reaches the MAC computation", detail="short input returns before slicing")
    r = return_expr(an)
    tuples = [x for x in leaves_phi(r) if x[0] == "agg" and x[1] == "tuple"]
    falses = [t for t in tuples if flow.strip(t[2][0][1]) == ("const", "bool", False)]
    others = [t for t in tuples if t not in falses]
    ctx.check(len(falses) == 1 and len(others) == 1, RV, "C02/verify-shape/returns", vb.loc,
              reason="unrecognised-implementation: verify returns %s" % render(r, maxdepth=4),
              detail="returns (false, _) on short input, (ok, message) otherwise")
    if len(others) == 1:
        okv, msg = flow.strip(others[0][2][0][1]), flow.strip(others[0][2][1][1])
        good = False
        why = "ok flag is %s" % render(okv, maxdepth=6)
        if okv[0] == "call" and flow.short(okv[1]).endswith("Result::is_ok"):
            v = flow.strip(okv[3][0])
            if v[0] == "call" and flow.short(v[1]).endswith("Mac::verify_slice"):
                mac, tag = v[3][0], flow.strip(v[3][1])
                tag_ok = slice_norm(tag) == ("signed", 0, 32)
                macs = flow.strip(mac)
                upd = find_all(mac, lambda x: x[0] == "mut")
                m_ok = False
                base = macs
                if base[0] == "call" and flow.short(base[1]).endswith("Result::expect"):
                    base = flow.strip(base[3][0])
                if base[0] == "call" and flow.short(base[1]).endswith("Mac::new_from_slice"):
                    m_ok = param_name(base[3][0]) == "secret" and "sha2::Sha256" in " ".join(base[5])
                why = "tag=%s mac=%s" % (render(tag, maxdepth=3), render(base, maxdepth=3))
                ups = calls(vb, "Mac::update")
                u_ok = len(ups) == 1 and slice_norm(arg(an, ups[0][0], ups[0][1], 1)) == ("signed", 32, None)
                upd_on_mac = bool(upd) and any(m.endswith("Mac::update") for m in upd[0][2])
                good = tag_ok and m_ok and u_ok and upd_on_mac
                if not tag_ok:
                    why = "tag compared is %s, expected signed[..32]" % render(tag, maxdepth=3)
                elif not m_ok:
                    why = "MAC is %s, expected HmacSha256 keyed with the secret parameter" % render(base, maxdepth=3)
                elif not u_ok or not upd_on_mac:
                    why = "MAC must be updated exactly once with signed[32..]"
        ctx.check(good, RV, "C02/verify-shape/mac", vb.loc, reason=why,
                  detail="ok = HmacSha256(secret).update(signed[32..]).verify_slice(signed[..32]).is_ok()")
        ctx.check(slice_norm(msg) == ("signed", 32, None), RV, "C02/verify-shape/message", vb.loc,
                  reason="returned message is %s, expected signed[32..]" % render(msg, maxdepth=3),
                  detail="message = signed[32..]")
    # every slicing call is unreachable for inputs shorter than it needs
    ordinal = {}
    for bb, what, need in slices:
        ordinal[what] = ordinal.get(what, 0) + 1
        okk = need is not None and not any(S.reachable(v, bb) for v in S.reach if v < need)
        ctx.check(okk, RV, "C02/verify-shape/slice-guarded/%s#%d" % (what, ordinal[what]),
                  site(vb, bb), reason="slice of `signed` needing %s bytes is reachable for shorter inputs (panic)" % need,
                  detail="slicing (needs %s bytes) unreachable for shorter inputs" % need)


def leaves_phi(e):
    e = flow.strip(e)
    if e[0] == "phi":
        out = []
        for x in e[1]:
            out.extend(leaves_phi(x))
        return out
    return [e]


def _slice_of(e, param, range_kind, n):
    e = flow.strip(e)
    if e[0] == "call" and flow.short(e[1]).endswith("Index::index"):
        base, rng = e[3][0], flow.strip(e[3][1])
        if param_name(base) == param and rng[0] == "agg" and rng[1].endswith("::" + range_kind):
            v = flow.strip(rng[2][0][1])
            return v[0] == "const" and v[2] == n
    return False

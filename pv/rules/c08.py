"""C08 — Connection behaviour is independent of segmentation and completion timing (DESIGN §5 C08)."""
from ..lib import *  # noqa: F401,F403
from .. import flow
from .listen_common import LISTEN, RECV, KEEP

EXPLANATION = ("cancellation-safety effect analysis over the await graph: every future that is a branch of a tokio::select! "
               "in passage-protocol (and may therefore be dropped unfinished) must not be able to hold bytes taken from, or "
               "partially written to, the client stream in its own locals across a later await; plus frame-once "
               "(one length VarInt, one id VarInt, body = take(length − 1), packets decoded from the frame cursor only) and "
               "single-write (one write_all of the assembled frame; no other writer of the stream)")
DECIDED = [
    "cancel-safety of every select! branch on the client stream (finding = select site, branch, await chain showing consumed bytes followed by a later await)",
    "receive_packet consumes exactly VarInt(length) + length bytes per call: one id read_varint, body read through take(length as u64 − 1); every packet is decoded from the frame cursor, never from the stream",
    "send_packet assembles id + body, prefixes the length of that buffer, and issues exactly one write_all of the assembled frame; nothing else writes to the stream",
]
UNDECIDED = ["a full trace-equivalence proof; the rules are necessary conditions and, for this single-task sequential handler, the places where segmentation/timing can matter"]
TRUSTED = ["tokio's documented cancel-safety of each I/O primitive (table CANCEL_UNSAFE below)", "tokio::select! drops the losing branch futures"]

# tokio docs: "This method is not cancellation safe" / cancel safe only when the buffer is a single byte
CANCEL_UNSAFE = ("AsyncReadExt::read_exact", "AsyncReadExt::read_to_end", "AsyncReadExt::read_to_string", "AsyncWriteExt::write_all",
                 "AsyncWriteExt::write_all_buf", "AsyncReadExt::read_u16", "AsyncReadExt::read_u32", "AsyncReadExt::read_u64",
                 "AsyncReadExt::read_u128", "AsyncReadExt::read_i16", "AsyncReadExt::read_i32", "AsyncReadExt::read_i64",
                 "AsyncWriteExt::write_u16", "AsyncWriteExt::write_u32", "AsyncWriteExt::write_u64", "AsyncWriteExt::write_u128",
                 "AsyncBufReadExt::read_line", "AsyncBufReadExt::read_until")
STREAM_IO = CANCEL_UNSAFE + ("AsyncReadExt::read", "AsyncReadExt::read_u8", "AsyncReadExt::read_i8", "AsyncReadExt::read_buf",
                             "AsyncWriteExt::write", "AsyncWriteExt::write_u8", "AsyncWriteExt::flush")


def one_byte_buffer(f):
    """read_exact(&mut [u8; 1]) cannot be half-done"""
    if f[0] != "call" or len(f[3]) < 2:
        return False
    b = flow.strip(f[3][1])
    return b[0] == "agg" and b[1] == "array" and len(b[2]) == 1


class Safety(object):
    def __init__(self, ctx):
        self.ctx = ctx
        self.memo = {}

    def stream_touching(self, key, seen=frozenset()):
        """does coroutine `key` (transitively) await client-stream I/O? returns witness chain or None"""
        if key in seen:
            return None
        body = self.ctx.prog.lib_bodies.get(key)
        if body is None:
            return None
        for bb, kind, name, info in awaits(self.ctx, body):
            if kind == "ext" and any(name.endswith(s) for s in STREAM_IO):
                return [(site(body, bb), name)]
            if kind == "select":
                for f in info[2]:
                    f = self._unwrap(f)
                    if f[0] == "call":
                        wk = _ws(self.ctx, f)
                        if wk:
                            w = self.stream_touching(wk, seen | {key})
                            if w:
                                return [(site(body, bb), "select!")] + w
                        elif any(flow.short(f[2] or f[1]).endswith(s) for s in STREAM_IO):
                            return [(site(body, bb), flow.short(f[2] or f[1]))]
            if kind == "ws":
                w = self.stream_touching(info, seen | {key})
                if w:
                    return [(site(body, bb), name.split("::{closure")[0].split("::")[-1])] + w
        return None

    @staticmethod
    def _unwrap(f):
        f = flow.strip(f)
        for _ in range(4):
            if f[0] == "call" and flow.short(f[1]).endswith(("Instrument::instrument", "IntoFuture::into_future")) and f[3]:
                f = flow.strip(f[3][0])
        return f

    def unsafe(self, key, seen=frozenset()):
        """witness chain showing that dropping coroutine `key` at an await can lose stream bytes, or None"""
        if key in self.memo:
            return self.memo[key]
        if key in seen:
            return None
        body = self.ctx.prog.lib_bodies.get(key)
        if body is None:
            return None
        self.memo[key] = None
        g = self.ctx.graph(body)
        aw = awaits(self.ctx, body)
        res = None
        # (c) a primitive that is itself not cancel-safe
        for bb, kind, name, info in aw:
            if kind == "ext" and any(name.endswith(s) for s in CANCEL_UNSAFE) and not (name.endswith("read_exact") and one_byte_buffer(info)):
                res = [(site(body, bb), name + " (not cancel-safe: partial progress is lost when dropped)")]
                break
        # (b) awaiting an unsafe workspace coroutine
        if res is None:
            for bb, kind, name, info in aw:
                if kind == "ws":
                    w = self.unsafe(info, seen | {key})
                    if w:
                        res = [(site(body, bb), name.split("::{closure")[0].split("::")[-1] + "(..).await")] + w
                        break
                if kind == "select":
                    for f in info[2]:
                        f = self._unwrap(f)
                        wk = _ws(self.ctx, f) if f[0] == "call" else None
                        if wk:
                            w = self.unsafe(wk, seen | {key})
                            if w:
                                res = [(site(body, bb), "select! branch")] + w
                                break
        # (a) bytes consumed by one await are held in locals while a later await may be dropped
        if res is None:
            touching = []
            for bb, kind, name, info in aw:
                if kind == "ext" and any(name.endswith(s) for s in STREAM_IO):
                    touching.append((bb, name))
                elif kind == "ws" and self.stream_touching(info, seen | {key}):
                    touching.append((bb, name.split("::{closure")[0].split("::")[-1]))
            for abb, an_ in touching:
                after = set(g.bb(n) for n in g.reachable([m for n in g.nodes_of_bb(abb) for m in g.succ[n]]))
                later = [(bb, nm) for bb, kind, nm, info in aw if bb in after]
                if later:
                    lb, ln = later[0]
                    res = [(site(body, abb), "%s completes (bytes now live only in this future's locals)" % an_),
                           (site(body, lb), "then awaits %s%s — dropping the future here loses them" % (ln.split("::")[-1], " again (loop)" if lb == abb else ""))]
                    break
        self.memo[key] = res
        return res


def _ws(ctx, f):
    from ..lib import _ws_coroutine_of
    return _ws_coroutine_of(ctx, f)


def check(ctx):
    write_acceptance(ctx)
    R = "C08/select-cancel-safety"
    S = Safety(ctx)
    n_sel = 0
    for k, b in sorted(ctx.prog.lib_bodies.items()):
        if not k.startswith("passage_protocol::") or not b.coroutine:
            continue
        fn = k.split("::")[2] + "::" + [x for x in k.split("::") if not x.startswith("{")][-1]
        sels = [a for a in awaits(ctx, b) if a[1] == "select"]
        for idx, (sbb, _, _, sel) in enumerate(sorted(sels)):
            n_sel += 1
            for bi, f in enumerate(sel[2]):
                f0 = S._unwrap(f)
                name = flow.short(f0[2] or f0[1]) if f0[0] == "call" else render(f0, maxdepth=1)
                short_name = name.split("::")[-1]
                key = "C08/select-cancel-safety/%s:select#%d{%s}/%s" % (fn, idx, "|".join(
                    (flow.short(S._unwrap(x)[2] or S._unwrap(x)[1]).split("::")[-1] if S._unwrap(x)[0] == "call" else "?") for x in sel[2]), short_name)
                wk = _ws(ctx, f0) if f0[0] == "call" else None
                w = None
                if wk:
                    w = S.unsafe(wk)
                elif f0[0] == "call" and any(name.endswith(s) for s in CANCEL_UNSAFE) and not (name.endswith("read_exact") and one_byte_buffer(f0)):
                    w = [(site(b, sbb), name + " is not cancel-safe")]
                if w:
                    ctx.fail(R, key, site(b, sbb),
                             "select! branch `%s` is not cancellation-safe on the client stream: when another branch completes first the future is dropped and "
                             "bytes already taken from (or partly written to) the stream are lost — the frame is consumed twice, half, or never: %s"
                             % (short_name, " → ".join("%s @ %s" % (x[1], x[0]) for x in w)),
                             witness=["%s @ %s" % (x[1], x[0]) for x in w])
                else:
                    ctx.ok(R, key, site(b, sbb), "branch %s holds no stream bytes across an await" % short_name)
    ctx.floor(R, "select! sites in passage-protocol", n_sel, 5)

    # ---- C08/frame-once
    RF = "C08/frame-once"
    rb = ctx.body(RECV, rule=RF)
    if rb is not None:
        an = ctx.an(rb)
        g = ctx.graph(rb)
        rv = [a for a in awaits(ctx, rb) if a[2].endswith("read_varint")]
        sels = [a for a in awaits(ctx, rb) if a[1] == "select"]
        in_sel = 0
        if sels:
            for f in sels[0][3][2]:
                f0 = S._unwrap(f)
                if f0[0] == "call" and flow.short(f0[2] or f0[1]).endswith("read_varint"):
                    in_sel += 1
        ctx.check(in_sel == 1 and len(rv) == 1, RF, "C08/frame-once/length-and-id", rb.loc,
                  reason="receive_packet reads %d VarInt in the select! (length) and %d afterwards (id); expected 1 and 1" % (in_sel, len(rv)),
                  detail="one length VarInt (select! branch) + one id VarInt")
        te = calls(rb, "AsyncReadExt::take")
        re_ = calls(rb, "AsyncReadExt::read_to_end")
        ok = len(te) == 1 and len(re_) == 1
        if ok:
            from .c04 import frame_value
            n = arg(an, te[0][0], te[0][1], 1)
            # the limit is (frame length − 1) for every length: an integer expression over the length, checked at sample points
            shape = from_len = all(frame_value(n, L) == L - 1 for L in (1, 2, 5, 977, 1000))
            src = flow.strip(arg(an, te[0][0], te[0][1], 0))
            on_stream = self_field(src) == "stream"
            rd = arg(an, re_[0][0], re_[0][1], 0)
            chained = bool([c for c in calls_in(rd, "AsyncReadExt::take") if c[4] == te[0][0]])
            ok = shape and from_len and on_stream and chained and (not rv or always_before(g, rv[0][0], re_[0][0]))
        ctx.check(ok, RF, "C08/frame-once/body-is-length-minus-id", rb.loc,
                  reason="the frame body is not read as (&mut self.stream).take(length as u64 − 1).read_to_end(..) after the id",
                  detail="body = stream.take(length − 1).read_to_end(buf), after the id")
        r = return_expr(an)
        # the Ok(..) values the function itself returns (alternatives of the return value), not results nested in `?` operands
        r0 = flow.strip(r)
        oks = [x for x in (r0[1] if r0[0] == "phi" else (r0,)) if flow.strip(x)[0] == "agg" and flow.strip(x)[1].endswith("Result::Ok")]
        oks = [flow.strip(x) for x in oks]
        cur = False
        if len(oks) == 1:
            t = flow.strip(oks[0][2][0][1])
            if t[0] == "agg" and t[1] == "tuple" and len(t[2]) == 2:
                c = flow.strip(t[2][1][1])
                cur = c[0] == "call" and flow.short(c[1]).endswith("Cursor::<T>::new") or (c[0] == "call" and flow.short(c[1]).endswith("Cursor::new"))
                if cur:
                    cur = bool(find_all(c[3][0], lambda x: x[0] == "mut" and any(m.endswith("read_to_end") for m in x[2])))
        ctx.check(cur, RF, "C08/frame-once/returns-frame-cursor", rb.loc, reason="receive_packet does not return a cursor over the bytes read by read_to_end",
                  detail="returns (id, Cursor::new(frame body))")
    n_dec = 0
    for rx in (LISTEN, KEEP):
        lb = ctx.body(rx, rule=RF)
        if lb is None:
            continue
        lan = ctx.an(lb)
        for bb, t in calls(lb, "ReadPacket::read_from_buffer"):
            n_dec += 1
            a = arg(lan, bb, t, 0)
            r, fs = field_path(a)
            r = flow.strip(r)
            ok = fs[-1:] == ["1"] and r[0] == "try" and bool([c for c in calls_in(r, "Connection::receive_packet")])
            ctx.check(ok, RF, "C08/frame-once/decode-from-cursor/%s@%s" % ((garg(t, 0) or "?").split("::")[-1], lb.key.split("::")[-3]), site(lb, bb),
                      reason="packet decoded from %s, not from the frame cursor returned by receive_packet" % render(a, maxdepth=4),
                      detail="decoded from the frame cursor")
    ctx.floor(RF, "packet decode sites", n_dec, 18)

    # ---- C08/single-write
    RW = "C08/single-write"
    sb = ctx.body(r"^passage_protocol::connection::\{impl#\d+\}::send_packet::\{closure#0\}::\{closure#0\}$", rule=RW)
    if sb is not None:
        an = ctx.an(sb)
        g = ctx.graph(sb)
        ws = calls(sb, "AsyncWriteExt::write_all")
        ctx.exact(RW, "write_all in send_packet", len(ws), 1, sb.loc)
        if len(ws) == 1:
            bb, t = ws[0]
            dst = arg(an, bb, t, 0)
            data = arg(an, bb, t, 1)
            ctx.check(self_field(dst) == "stream", RW, "C08/single-write/on-stream", site(sb, bb), reason="write_all on %s" % render(dst, maxdepth=3),
                      detail="write_all on self.stream")
            muts = find_all(data, lambda x: x[0] == "mut")
            names = set(m.split("::")[-1] for mm in muts for m in mm[2])
            vi = calls(sb, "AsyncWritePacket::write_varint")
            ext = calls(sb, "extend_from_slice")
            ok = "extend_from_slice" in names and "write_varint" in names and len(ext) == 1
            lenok = False
            order = False
            if ok:
                # the length prefix is written into the final buffer before the body, and equals self.buffer.len()
                for vb, vt in vi:
                    d = an.operand_expr(vt.args[0], (vb, "term"))
                    v = flow.strip(arg(an, vb, vt, 1))
                    if find_all(d, lambda x: x[0] == "call" and flow.short(x[1]).endswith("with_capacity")):
                        lenok = v[0] == "cast" and bool(calls_in(v, "len")) and bool(find_all(v, lambda x: x[0] == "field" and self_field(x) == "buffer"))
                        order = always_before(g, vb, ext[0][0]) and always_before(g, ext[0][0], bb)
                src = arg(an, ext[0][0], ext[0][1], 1)
                bodyok = bool(find_all(src, lambda x: x[0] == "field" and self_field(x) == "buffer"))
                ok = lenok and order and bodyok
            ctx.check(ok, RW, "C08/single-write/assembled-frame", site(sb, bb),
                      reason="the written buffer is not [VarInt(len(self.buffer))] ++ self.buffer assembled before the single write",
                      detail="write_all(varint(buffer.len()) ++ buffer)")
            # self.buffer = id varint + packet body, cleared first
            clr = calls(sb, ("Vec::<T, A>::clear", "Vec::clear"))
            wtb = calls(sb, "WritePacket::write_to_buffer")
            idw = [(vb, vt) for vb, vt in vi if self_field(flow.strip(an.operand_expr(vt.args[0], (vb, "term")))) == "buffer"]
            ok2 = len(clr) == 1 and len(wtb) == 1 and len(idw) == 1 and always_before(g, clr[0][0], idw[0][0]) and always_before(g, idw[0][0], wtb[0][0]) \
                and always_before(g, wtb[0][0], ext[0][0] if ext else bb)
            if ok2:
                idv = flow.strip(arg(an, idw[0][0], idw[0][1], 1))
                ok2 = bool(find_all(idv, lambda x: x[0] == "constitem" and x[1].endswith("Packet::ID")))
            ctx.check(ok2, RW, "C08/single-write/frame-content", sb.loc,
                      reason="self.buffer is not built as clear(); write_varint(T::ID); packet.write_to_buffer(..)", detail="buffer = VarInt(T::ID) ++ packet body")
    # who may write the stream
    writers = []
    for k, b in ctx.prog.lib_bodies.items():
        if not k.startswith("passage_protocol::connection::"):
            continue
        an2 = ctx.an(b)
        for bb, t in b.calls():
            n = cname(t) or dname(t)
            if n.split("::")[-1].startswith("write") and ("AsyncWriteExt" in dname(t) or "AsyncWritePacket" in dname(t)) and not b.is_noise(t):
                d = an2.operand_expr(t.args[0], (bb, "term"))
                if self_field(d) == "stream":
                    writers.append((k.split("::")[3], n.split("::")[-1]))
    ctx.check(writers == [("send_packet", "write_all")], RW, "C08/single-write/who-may-write", "",
              reason="writes to self.stream: %s; expected only send_packet's write_all" % writers, detail="only send_packet writes to the stream")


def write_acceptance(ctx):
    """a frame arrives complete under every write-acceptance pattern only if the cipher layer below send_packet keeps the keystream
    aligned with what the transport accepted: the commit-after-accept clauses of C05 are re-evaluated here (same rule code, C08 keys)"""
    from .. import core
    from . import c05
    sub = core.Ctx(ctx.prop, ctx.prog, ctx.tier, ctx.config)
    c05.check(sub)
    seen = 0
    for o in sub.obligations:
        if o["key"].startswith("C05/commit-after-accept/"):
            seen += 1
            ctx.check(o["ok"], "C08/write-acceptance", "C08/write-acceptance/" + o["key"][len("C05/commit-after-accept/"):], o["site"],
                      reason=o["detail"], detail=o["detail"])
    ctx.floor("C08/write-acceptance", "commit-after-accept clauses evaluated on CipherStream::poll_write", seen, 4)

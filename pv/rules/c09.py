"""C09 — Every packet encodes to the Minecraft wire layout and decodes back losslessly (DESIGN §5 C09). Table part."""
import json
import os

from ..lib import *  # noqa: F401,F403
from .. import flow, codec
from ..core import VERIF

EXPLANATION = ("table agreement: for every `impl Packet` the evaluated ID equals the protocol table (spec/protocol.json, "
               "written from the protocol documentation); for every WritePacket impl the dominance-ordered sequence of "
               "codec calls with the struct field each consumes equals the table entry (kind, width/endianness via the "
               "tokio method used, order, presence-flag shape); the ReadPacket sequence mirrors it primitive by "
               "primitive and assigns each read to the field the writer took it from; enum <-> VarInt tables are "
               "mutually inverse bijections onto the protocol ordinals with everything else rejected; shapes of the "
               "primitives (length prefixes in bytes, 128-bit big-endian UUID, VarInt/VarLong group counts 5/10, "
               "7-bit groups, continuation bit, loop termination)")
DECIDED = [
    "ids of all 41 packet types equal the protocol's and are unique per (state, direction)",
    "field order, primitive kind and integer width of every non-placeholder packet equal the protocol layout; every struct field is written exactly once; optional fields are a bool flag followed by the value only when Some",
    "reader and writer of each packet agree primitive by primitive and field by field",
    "State, ChatMode, MainHand, ParticleStatus, ResourcePackResult: encode/decode tables are inverse bijections onto the protocol ordinals; other ordinals -> Err(IllegalEnumValue)",
    "write_string/write_bytes prefix the byte length as VarInt then the bytes; UUID = write_u128/read_u128 (big-endian); VarInt/VarLong readers loop over exactly 5/10 groups with mask 0x7f, shift 7*i, stop on a clear 0x80 bit; writers shift logically by 7 and stop when the value is 0",
]
UNDECIDED = ["the bit arithmetic of the VarInt/VarLong loops for all values (value-level)", "UTF-8 validation", "'consumes all bytes' for NBT text components"]
TRUSTED = ["tokio AsyncReadExt/AsyncWriteExt read_uN/write_uN are big-endian fixed-width", "fastnbt for compound text components"]

ENUMS = ("State", "ChatMode", "MainHand", "ParticleStatus", "ResourcePackResult")


def load_spec():
    with open(os.path.join(VERIF, "spec", "protocol.json")) as fh:
        return json.load(fh)


def expand(layout):
    out = []
    for ent in layout:
        kind, src = ent[0], ent[1]
        if kind.startswith("opt:"):
            out.append(("bool", src + "?"))
            out.append((kind[4:], src + "!"))
        else:
            out.append((kind, src))
    return out


def kind_ok(spec_kind, got):
    return got in spec_kind.split("|")


def check(ctx):
    prog = ctx.prog
    spec = load_spec()
    packets = spec["packets"]
    R = "C09/ids"
    ids = {c["impl_self"].replace("passage_packets::", ""): c.get("int") for c in prog.consts.values()
           if c.get("impl_trait") == "passage_packets::Packet" and c.get("item") == "ID"}
    ctx.floor(R, "impl Packet for T", len(ids), 41)
    for T in sorted(set(ids) | set(packets)):
        if T not in packets:
            ctx.fail(R, "C09/ids/" + T, "", "packet type %s (ID %s) is not in the protocol table" % (T, ids[T]))
            continue
        if T not in ids:
            ctx.fail(R, "C09/ids/" + T, "", "anchor-missing: protocol packet %s has no `impl Packet`" % T)
            continue
        ctx.check(ids[T] == packets[T]["id"], R, "C09/ids/" + T, "",
                  reason="<%s as Packet>::ID is %s, the protocol assigns 0x%02X" % (T, ids[T], packets[T]["id"]),
                  detail="%s ID = 0x%02X" % (T, packets[T]["id"]))
    groups = {}
    for T, i in ids.items():
        groups.setdefault(T.rsplit("::", 1)[0], {}).setdefault(i, []).append(T)
    dups = [(g, i, ts) for g, m in groups.items() for i, ts in m.items() if len(ts) > 1]
    ctx.check(not dups, R, "C09/ids/unique", "", reason="duplicate ids within a state/direction: %s" % dups,
              detail="ids unique within each of %d (state, direction) modules" % len(groups))

    # ---- layouts
    RL = "C09/layout"
    RA = "C09/reader-writer-agree"
    w = codec.impl_bodies(ctx, "passage_packets::WritePacket", "write_to_buffer")
    r = codec.impl_bodies(ctx, "passage_packets::ReadPacket", "read_from_buffer")
    ctx.floor(RL, "WritePacket impls", len(w), 41)
    ctx.floor(RA, "ReadPacket impls", len(r), 41)
    for Tfull in sorted(set(w) | set(r)):
        T = Tfull.replace("passage_packets::", "")
        ent = packets.get(T)
        if ent is None:
            continue
        adt = prog.adts.get(Tfull)
        fields = [f["name"] for f in adt["variants"][0]["fields"]] if adt else []
        wl = codec.writer_layout(ctx, w[Tfull]) if Tfull in w else None
        rl = codec.reader_layout(ctx, r[Tfull], Tfull) if Tfull in r else None
        if ent["layout"] == "placeholder":
            ok = (wl == [] or wl is None) and (rl == [] or rl is None) and not fields
            ctx.check(ok, RL, "C09/layout/%s(placeholder)" % T, w[Tfull].loc if Tfull in w else "",
                      reason="%s is listed as an id-only placeholder but has fields %s / codec calls %s" % (T, fields, wl),
                      detail="%s: id only (placeholder)" % T)
            continue
        want = expand(ent["layout"])
        if wl is not None:
            ok = len(wl) == len(want)
            why = ""
            if ok:
                for (gk, gs), (sk, ss) in zip(wl, want):
                    gs_n = gs.split(" as ")[0].split(".0")[0] if gs.endswith(".0") else gs.split(" as ")[0]
                    if not kind_ok(sk, gk) or gs_n != ss:
                        ok = False
                        why = "step (%s %s) where the protocol has (%s %s)" % (gk, gs, sk, ss)
                        break
            else:
                why = "%d codec steps, protocol has %d" % (len(wl), len(want))
            ctx.check(ok, RL, "C09/layout/" + T, w[Tfull].loc,
                      reason="%s is written as %s; protocol layout %s: %s" % (T, wl, want, why),
                      detail="%s: %s" % (T, " ".join("%s(%s)" % x for x in wl) or "(empty)"))
            # every struct field written exactly once
            srcs = [s.split(" ")[0].rstrip("?!").split(".")[0] for _, s in wl if not s.startswith("=")]
            once = all(sum(1 for x, (k, s) in zip(srcs, [y for y in wl if not y[1].startswith("=")]) if x == f and not s.endswith("?")) == 1 for f in fields)
            ctx.check(once, RL, "C09/layout/%s/fields-once" % T, w[Tfull].loc,
                      reason="struct fields %s vs written sources %s: a field is missing or written twice" % (fields, srcs),
                      detail="each of %d fields written exactly once" % len(fields))
        if wl is not None and rl is not None:
            ok = len(wl) == len(rl)
            why = ""
            if ok:
                for (wk, ws), (rk, rs) in zip(wl, rl):
                    wsn = ws.split(" as ")[0]
                    wsn = wsn[:-2] if wsn.endswith(".0") else wsn
                    rsn = rs.split(" as ")[0]
                    same_src = wsn == rsn or (ws.startswith("=") and rs == "=_")
                    if wk != rk or not same_src:
                        ok = False
                        why = "writer (%s %s) vs reader (%s %s)" % (wk, ws, rk, rs)
                        break
            else:
                why = "writer has %d steps, reader %d" % (len(wl), len(rl))
            ctx.check(ok, RA, "C09/reader-writer-agree/" + T, r[Tfull].loc,
                      reason="%s: reader does not mirror writer: %s (writer %s, reader %s)" % (T, why, wl, rl),
                      detail="%s: reader mirrors writer (%d steps)" % (T, len(wl)))

    # ---- enums
    RE = "C09/enums"
    from .c06 import enum_decode_table
    for E in ENUMS:
        want = spec["enums"][E]
        alias = spec.get("enum_variant_aliases", {}).get(E, {})
        enc = [b for b in prog.find_bodies(r"^passage_packets::\{impl#\d+\}::from$") if ("passage_packets::%s>" % E) in b.name and "for i32" in b.name or
               b.name.startswith("<i32 as std::convert::From<passage_packets::%s>>" % E)]
        dec = [b for b in prog.find_bodies(r"^passage_packets::\{impl#\d+\}::try_from$") if b.name.startswith("<passage_packets::%s as" % E)]
        ctx.check(len(enc) == 1 and len(dec) == 1, RE, "C09/enums/%s/impls" % E, "",
                  reason="anchor-missing: From<%s> for VarInt (%d) / TryFrom<VarInt> for %s (%d)" % (E, len(enc), E, len(dec)),
                  detail="%s: both conversions present" % E)
        if len(enc) != 1 or len(dec) != 1:
            continue
        et = enum_encode_table(ctx, enc[0])
        dt = enum_decode_table(ctx, dec[0])
        et_n = {alias.get(k, k): v for k, v in et.items()}
        dt_n = {k: alias.get(v, v) for k, v in dt.items()}
        ctx.check(et_n == want, RE, "C09/enums/%s/encode" % E, enc[0].loc,
                  reason="%s encodes as %s; protocol ordinals %s" % (E, et, want), detail="%s -> %s" % (E, et))
        ctx.check(dt_n == {v: k for k, v in want.items()}, RE, "C09/enums/%s/decode" % E, dec[0].loc,
                  reason="%s decodes as %s; protocol ordinals %s (anything else must be Err)" % (E, dt, want), detail="%s <- %s, other -> Err" % (E, dt))
        ctx.check({v: k for k, v in et.items()} == {k: v for k, v in dt.items() if v != "Err"}, RE, "C09/enums/%s/inverse" % E, dec[0].loc,
                  reason="%s: encode and decode tables are not inverse: %s vs %s" % (E, et, dt), detail="%s: inverse bijection" % E)

    primitives(ctx, spec)


def enum_encode_table(ctx, body):
    """{Variant: int} of a From<E> for VarInt body (path enumeration)"""
    return codec.encode_table(ctx, body)


def primitives(ctx, spec):
    R = "C09/primitives-shape"
    prog = ctx.prog

    def body(name):
        return ctx.body(r"^passage_packets::(reader|writer)::\{impl#0\}::%s::\{closure#0\}$" % name, rule=R)

    # write_string / write_bytes: varint(len as i32) then write_all(bytes)
    for fn, lenfn, param, conv in (("write_string", "str::len", "string", "str::as_bytes"), ("write_bytes", "len", "arr", None)):
        b = body(fn)
        if b is None:
            continue
        an = ctx.an(b)
        g = ctx.graph(b)
        vs = calls(b, "AsyncWritePacket::write_varint")
        ws = calls(b, "AsyncWriteExt::write_all")
        ok = len(vs) == 1 and len(ws) == 1
        why = "%d write_varint, %d write_all" % (len(vs), len(ws))
        if fn == "write_string" and not vs and not ws:
            # a string is its UTF-8 bytes with a byte-length prefix: delegating to write_bytes(string.as_bytes()) — whose own shape is
            # checked below — is the same encoding
            wb_ = calls(b, "AsyncWritePacket::write_bytes")
            if len(wb_) == 1:
                d0 = arg(an, wb_[0][0], wb_[0][1], 1)
                ok = param_name(flow.strip(d0, extra=("as_bytes",))) == param and bool(calls_in(d0, "as_bytes")) \
                    and param_name(arg(an, wb_[0][0], wb_[0][1], 0)) in ("self",) or False
                ok = ok and not [c for c in calls_in(d0) if flow.short(c[1]).split("::")[-1] in ("chars", "to_lowercase", "to_uppercase", "trim")]
                ctx.check(ok, R, "C09/primitives-shape/" + fn, b.loc,
                          reason="%s delegates to write_bytes with %s; expected the string's own bytes" % (fn, render(d0, maxdepth=3)),
                          detail="%s = write_bytes(%s.as_bytes())" % (fn, param))
                continue
        if ok:
            v = flow.strip(arg(an, vs[0][0], vs[0][1], 1))
            lenok = v[0] == "cast" and flow.strip(v[2])[0] == "call" and flow.short(flow.strip(v[2])[1]).endswith(lenfn) \
                and param_name(flow.strip(v[2])[3][0]) == param
            data = arg(an, ws[0][0], ws[0][1], 1)
            dataok = param_name(flow.strip(data, extra=("as_bytes",))) == param
            chars = bool(calls_in(v, "chars")) or bool(calls_in(v, "count"))
            ok = lenok and dataok and not chars and always_before(g, vs[0][0], ws[0][0])
            why = "prefix=%s data=%s" % (render(v, maxdepth=3), render(data, maxdepth=3))
        ctx.check(ok, R, "C09/primitives-shape/" + fn, b.loc,
                  reason="%s: expected VarInt(byte length) then the bytes; got %s" % (fn, why),
                  detail="%s = varint(%s.len()) ++ bytes" % (fn, param))
    for fn, rd in (("read_string", "String::from_utf8"), ("read_bytes", None)):
        b = body(fn)
        if b is None:
            continue
        an = ctx.an(b)
        g = ctx.graph(b)
        vs = calls(b, "AsyncReadPacket::read_varint")
        rs = calls(b, "AsyncReadExt::read_exact") + calls(b, "AsyncReadExt::read_to_end")
        ok = len(vs) == 1 and len(rs) == 1 and always_before(g, vs[0][0], rs[0][0])
        if ok:
            buf = arg(an, rs[0][0], rs[0][1], 1)
            sized = bool([c for c in calls_in(buf, "read_varint")]) or bool(calls_in(arg(an, rs[0][0], rs[0][1], 0), "read_varint"))
            ok = sized
        ctx.check(ok, R, "C09/primitives-shape/" + fn, b.loc,
                  reason="%s: expected one VarInt length then exactly that many bytes" % fn, detail="%s = varint length, then that many bytes" % fn)
        # no bound tighter than the protocol's: a string may be 32767 UTF-16 units = up to 3*32767+3 bytes
        tight = []
        for blk in b.blocks:
            if blk.cleanup or blk.term.kind != "switch" or b.is_noise(blk.term):
                continue
            e, ls = an.switch_info(blk.idx)
            if e[0] == "binop" and e[1] in ("Gt", "Ge", "Lt", "Le"):
                x, y = flow.strip(e[2]), flow.strip(e[3])
                for u, v in ((x, y), (y, x)):
                    if calls_in(u, "read_varint") and v[0] == "const" and isinstance(v[2], int) and 0 < v[2] < 3 * 32767 + 3:
                        tight.append((e[1], v[2]))
        ctx.check(not tight, R, "C09/primitives-shape/%s/no-tighter-limit" % fn, b.loc,
                  reason="%s compares the byte-length prefix with %s: the protocol allows strings of up to 32767 characters, i.e. up to %d bytes, so valid values are rejected"
                         % (fn, tight, 3 * 32767 + 3),
                  detail="%s imposes no byte limit below the protocol's" % fn)
        if rd:
            ctx.check(len(calls(b, rd)) == 1, R, "C09/primitives-shape/%s/utf8" % fn, b.loc,
                      reason="%s does not validate UTF-8 with %s" % (fn, rd), detail="%s validates UTF-8 (error -> InvalidEncoding)" % fn)
    # uuid
    for fn, call, conv in (("write_uuid", "AsyncWriteExt::write_u128", "as_u128"), ("read_uuid", "AsyncReadExt::read_u128", "from_u128")):
        b = body(fn)
        if b is None:
            continue
        ok = len(calls(b, call)) == 1 and len(calls(b, conv)) == 1
        ctx.check(ok, R, "C09/primitives-shape/" + fn, b.loc, reason="%s is not a 128-bit big-endian transfer (%s + %s)" % (fn, call, conv),
                  detail="%s = %s(%s)" % (fn, call.split("::")[-1], conv))
    for fn, call in (("write_bool", "AsyncWriteExt::write_u8"), ("read_bool", "AsyncReadExt::read_u8")):
        b = body(fn)
        if b is not None:
            ctx.check(len(calls(b, call)) == 1, R, "C09/primitives-shape/" + fn, b.loc, reason="%s is not one byte" % fn, detail="%s = one byte" % fn)
    # VarInt / VarLong readers
    for fn, groups, width in (("read_varint", spec["varint_groups"], 32), ("read_varlong", spec["varlong_groups"], 64)):
        b = body(fn)
        if b is None:
            continue
        an = ctx.an(b)
        rng = None
        for bb, t in calls(b, "IntoIterator::into_iter"):
            e = flow.strip(arg(an, bb, t, 0))
            if e[0] == "agg" and e[1].endswith("ops::Range::Range"):
                f = dict(e[2])
                if int_value(f["start"]) is not None and int_value(f["end"]) is not None:
                    rng = (int_value(f["start"]), int_value(f["end"]))
        key = "C09/primitives-shape/%s/groups" % fn
        ok = rng is not None and rng[0] == 0 and rng[1] == groups
        ctx.check(ok, R, key, b.loc,
                  reason="%s reads at most %s groups (loop range %s); a %d-bit value needs up to %d groups of 7 bits, so every value whose "
                         "encoding uses %d bytes (all negative numbers) cannot be decoded" % (fn, (rng[1] - rng[0]) if rng else "?", rng, width, groups, groups),
                  detail="%s loops over 0..%d groups" % (fn, groups))
        consts = binop_consts(ctx, b)
        ok = ("BitAnd", 127) in consts and ("BitAnd", 128) in consts and (("MulWithOverflow", 7) in consts or ("Mul", 7) in consts)
        ctx.check(ok, R, "C09/primitives-shape/%s/group-arith" % fn, b.loc,
                  reason="%s: expected mask 0x7f, continuation bit 0x80 and shift 7*i; constants seen: %s" % (fn, sorted(consts)),
                  detail="%s: (b & 0x7f) << 7*i, stop when b & 0x80 == 0" % fn)
        rd = calls(b, "AsyncReadExt::read_exact") + calls(b, "AsyncReadExt::read_u8")
        ctx.check(len(rd) == 1, R, "C09/primitives-shape/%s/one-byte-reads" % fn, b.loc,
                  reason="%s does not read byte-wise" % fn, detail="%s reads one byte per group" % fn)
    for fn, width in (("write_varint", 32), ("write_varlong", 64)):
        b = body(fn)
        if b is None:
            continue
        consts = binop_consts(ctx, b)
        # the shift must be logical: either the signed idiom (v >> 7) & (MAX >> 6), or the value is shifted as an unsigned integer
        unsigned_shift = False
        for blk in b.blocks:
            if blk.cleanup:
                continue
            for s0 in blk.stmts:
                if s0.kind == "assign" and s0.rv.k == "binop" and s0.rv.j["op"] in ("Shr", "ShrUnchecked") and not b.is_noise(s0) \
                        and s0.rv.ops[0].place is not None and str(b.locals[s0.rv.ops[0].place.local].get("s", "")).startswith("u"):
                    unsigned_shift = True
        ok = ("BitAnd", 127) in consts and ("Shr", 7) in consts and ("BitOr", 128) in consts and (("Shr", 6) in consts or unsigned_shift) \
            and (("Eq", 0) in consts or ("Ne", 0) in consts)
        # the number of groups is decided by the value itself (emit until the shifted value is 0), not pre-computed from its bit length
        precomp = [nm for _, t0 in b.calls() if not b.is_noise(t0) for nm in [(cname(t0) or dname(t0)).split("::")[-1]]
                   if nm in ("leading_zeros", "trailing_zeros", "ilog2", "ilog", "checked_ilog2", "count_ones", "count_zeros", "div_ceil", "next_multiple_of")]
        precomp += ["%s %s" % c for c in consts if c[0] in ("Div", "Rem") and c[1] == 7]
        ctx.check(not precomp, R, "C09/primitives-shape/%s/value-driven" % fn, b.loc,
                  reason="%s computes how many groups to emit from the bit length of the value (%s) instead of emitting until the shifted value is 0: "
                         "off-by-one group counts produce over-long encodings" % (fn, sorted(set(precomp))),
                  detail="%s: group count is value-driven" % fn)
        ctx.check(ok, R, "C09/primitives-shape/%s/loop" % fn, b.loc,
                  reason="%s: expected low 7 bits, logical shift by 7 ((v >> 7) & (MAX >> 6)), continuation bit 0x80, stop at 0; constants seen %s" % (fn, sorted(consts)),
                  detail="%s: emit v & 0x7f | 0x80 while (v >>> 7) != 0" % fn)
        w = calls(b, "AsyncWriteExt::write_all") + calls(b, "AsyncWriteExt::write_u8")
        ctx.check(len(w) == 1, R, "C09/primitives-shape/%s/one-byte-writes" % fn, b.loc, reason="%s does not write byte-wise" % fn,
                  detail="%s writes one byte per group" % fn)

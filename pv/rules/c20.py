"""C20 — Agones discovery offers exactly the currently ready game servers (DESIGN §5 C20). Structural part."""
from ..lib import *  # noqa: F401,F403
from .. import flow, boolform

EXPLANATION = ("shape rules on the watcher task of AgonesDiscoveryAdapter::new: which watcher events reach the cache "
               "(a flattening adaptor that drops Delete/Init* is a finding), the upsert guard as a decision DAG over "
               "state == \"Ready\" / \"Allocated\", removal on every other state, removal of a stale entry when the "
               "conversion fails, upsert-in-place by identifier, single writer / snapshot reader, the task survives "
               "stream errors; field mapping of TryFrom<GameServer> for Target")
DECIDED = [
    "the cache-feeding task observes deletions and re-lists: consumes watcher::Event with handlers for Apply/InitApply/Delete/Init/InitDone (or a reflector store); flattening adaptors that drop Delete/Init* are findings",
    "upsert iff state == \"Ready\" ∨ state == \"Allocated\" with state = target.meta[\"state\"]; any other state removes the entry with the same identifier",
    "a GameServer that cannot be converted removes any cached entry of that name before the loop continues",
    "upsert replaces in place by identifier (no duplicates); the cache is written only by the watcher task; discover() returns a clone taken under the read lock",
    "a stream error continues the loop; only cancellation or end of stream end the task",
    "Target: identifier <- metadata.name, address <- SocketAddr::new(status.address.parse()?, status.ports.first().port), meta ⊇ {state, counters, lists, labels, annotations}; missing name/status/port or bad address are errors",
]
UNDECIDED = ["kube's watcher semantics (re-list, bookmarks, back-off)", "the history-level statement 'at all times exactly'"]
TRUSTED = ["kube::runtime::watcher emits Delete for deleted objects and Init/InitApply/InitDone around every (re-)list"]

NEW = r"^passage_adapters_agones::discovery_adapter::\{impl#\d+\}::new::\{closure#0\}$"


def check(ctx):
    R = "C20/event-exhaustiveness"
    nb = ctx.body(NEW, rule=R)
    if nb is None:
        return
    nan = ctx.an(nb)
    sp = calls(nb, ("tokio::spawn", "task::spawn"))
    ctx.exact(R, "spawn of the watcher task", len(sp), 1, nb.loc)
    if len(sp) != 1:
        return
    fut = flow.strip(arg(nan, sp[0][0], sp[0][1], 0))
    task, caps0 = spawned_future(ctx, nan, fut)
    ctx.check(task is not None, R, "C20/event-exhaustiveness/task", site(nb, sp[0][0]), reason="anchor-missing: watcher task body not found",
              detail="watcher task found")
    if task is None:
        return
    caps = caps0
    an = ctx.an(task)
    g = ctx.graph(task)
    # the captured event stream, under whatever local name: the capture built from a kube watcher / reflector
    stream = caps.get("stream")
    for cv in caps.values():
        if calls_in(cv, "watcher::watcher") or calls_in(cv, "runtime::watcher") or calls_in(cv, "reflector"):
            stream = cv
    if stream is None:
        stream = ("unknown", "no captured stream")
    ws = calls_in(stream, "watcher::watcher") + calls_in(stream, "runtime::watcher")
    refl = calls_in(stream, "reflector")
    ctx.check(bool(ws) or bool(refl), R, "C20/event-exhaustiveness/source", site(nb, sp[0][0]),
              reason="the task's stream is %s, not a kube watcher/reflector" % render(stream, maxdepth=4), detail="stream = kube watcher")
    flat = [flow.short(c[1]).split("::")[-1] for c in calls_in(stream) if flow.short(c[1]).split("::")[-1] in
            ("applied_objects", "touched_objects", "filter_map", "try_filter_map", "try_filter")]
    # handled event kinds: switch on discriminant of a watcher::Event in the task
    handled = set()
    for b in task.blocks:
        if b.cleanup or b.term.kind != "switch" or task.is_noise(b.term):
            continue
        e, ls = an.switch_info(b.idx)
        for l in ls.values():
            for x in l:
                if x in ("Apply", "Delete", "Init", "InitApply", "InitDone"):
                    handled.add(x)
    need = {"Apply", "Delete", "Init", "InitApply", "InitDone"}
    ok = (not flat and handled >= need) or (bool(refl) and not flat)
    ctx.check(ok, R, "C20/event-exhaustiveness/watcher-events", site(nb, sp[0][0]),
              reason=("the watch stream is flattened by %s before it reaches the cache (events handled explicitly: %s): "
                      "Delete and Init/InitDone (re-list) events are dropped, so a GameServer deleted while Ready/Allocated — or missing from a "
                      "re-list after a dropped watch — stays offered forever") % (flat or "nothing", sorted(handled) or "none"),
              detail="all watcher event kinds reach the cache logic")

    # ---- the conversion and its Err edge
    RS = "C20/stale-on-conversion-failure"
    conv = [(bb, t) for bb, t in calls(task, ("TryInto::try_into", "TryFrom::try_from"))
            if "GameServer" in " ".join(t.callee["gargs"]) and "Target" in " ".join(t.callee["gargs"])]
    ctx.floor(RS, "GameServer -> Target conversion in the task", len(conv), 1, task.loc)
    removers = ("Vec::<T, A>::swap_remove", "Vec::<T, A>::retain", "Vec::<T, A>::remove", "swap_remove", "retain", "Vec::remove", "retain_mut")
    rem_sites = [bb for bb, t in calls(task, removers)]
    sel = [a for a in awaits(ctx, task) if a[1] == "select"]
    loop_head = sel[0][0] if sel else None
    for cb, ct in conv:
        err_t = []
        for b in task.blocks:
            if b.cleanup or b.term.kind != "switch" or task.is_noise(b.term):
                continue
            e, ls = an.switch_info(b.idx)
            x = flow.strip(e)
            if x[0] == "call" and x[4] == cb:
                err_t += [tb for tb, l in ls.items() if "Err" in l]
        ctx.check(bool(err_t), RS, "C20/stale-on-conversion-failure/matched", site(task, cb),
                  reason="the conversion result is not matched on Ok/Err", detail="conversion result matched")
        if err_t and loop_head is not None:
            # every path from the Err edge back to the loop head passes a removal from the cache
            starts = []
            for tb in err_t:
                starts += g.nodes_of_bb(tb)
            # an object without a name was never cached: the None edge of a match on metadata.name is exempt
            exempt = []
            for b2 in task.blocks:
                if b2.cleanup or b2.term.kind != "switch" or task.is_noise(b2.term):
                    continue
                e2, ls2 = an.switch_info(b2.idx)
                if find_all(e2, lambda y: y[0] == "field" and y[2] == "name") and find_all(e2, lambda y: y[0] == "field" and y[2] == "metadata"):
                    exempt += [(b2.idx, tb) for tb, l in ls2.items() if "None" in l]
            p = g.path(starts, [loop_head], cut_nodes=rem_sites, cut_edges=exempt)
            ctx.check(p is None, RS, "C20/stale-on-conversion-failure/removes-cached-entry", site(task, cb),
                      reason="when a GameServer can no longer be converted (ports/address lost) the loop continues without removing a cached "
                             "entry of that name: the stale target stays offered",
                      detail="conversion failure removes the cached entry before continuing")

    # ---- C20/state-predicate
    RP = "C20/state-predicate"
    pushes = calls(task, ("Vec::<T, A>::push", "Vec::push"))
    replaces = [(bb, i) for bb, i, s in an.mem_writes if not task.is_noise(s) and "Target" in str(task.locals[s.place.local].get("s", "")) or False]
    ctx.floor(RP, "push into the cache", len(pushes), 1, task.loc)
    # the two comparisons `state == "Ready"` / `state == "Allocated"`, wherever their results go (a switch, `||` kept in a variable,
    # the verdict of a merged helper)
    eqs = {}
    for bb, t in task.calls():
        if task.is_noise(t):
            continue
        nm = (cname(t) or dname(t)).split("::")[-1]
        if nm not in ("eq", "ne") or len(t.args) != 2:
            continue
        c = [flow.strip(arg(an, bb, t, k)) for k in range(2)]
        lit = [a for a in c if a[0] == "const" and isinstance(a[2], str)]
        oth = [a for a in c if not (a[0] == "const")]
        if lit and oth:
            st = oth[0]
            gets = calls_in(st, "HashMap::get") + calls_in(st, "::get")
            from_state = any(flow.strip(gc[3][1])[0] == "constitem" and flow.strip(gc[3][1])[1].endswith("META_STATE") for gc in gets if len(gc[3]) > 1)
            eqs[lit[0][2]] = (bb, nm == "ne", from_state)
    ctx.check(set(eqs) == {"Ready", "Allocated"} and all(v[2] for v in eqs.values()), RP, "C20/state-predicate/atoms", task.loc,
              reason="the upsert guard compares %s; expected target.meta[META_STATE] == \"Ready\" / \"Allocated\"" % {k: v[2] for k, v in eqs.items()},
              detail="guard atoms: state == Ready, state == Allocated (state = meta[\"state\"])")
    if set(eqs) == {"Ready", "Allocated"} and pushes:
        # three scenarios (pv/sample.py): state is Ready / is Allocated / is neither
        from ..sample import Scenario

        def scen(ready, alloc):
            cs = {}
            for k, want in (("Ready", ready), ("Allocated", alloc)):
                if want is not None:
                    bbk, negated, _ = eqs[k]
                    cs[bbk] = (not want) if negated else want
            return Scenario(ctx, task, calls=cs, opt=False)
        s_ready, s_alloc, s_none = scen(True, None), scen(False, True), scen(False, False)
        first_bb = eqs["Ready"][0] if always_before(g, eqs["Ready"][0], eqs["Allocated"][0]) else eqs["Allocated"][0]

        def iteration(scn):
            """blocks reachable from the first comparison before the next loop iteration, in that scenario"""
            starts = scn.g.nodes_of_bb(first_bb)
            return set(scn.g.bb(n) for n in scn.g.reachable(starts, cut_nodes=[loop_head] if loop_head is not None else []))
        it_ready, it_alloc, it_none = iteration(s_ready), iteration(s_alloc), iteration(s_none)
        for pb, pt in pushes:
            ctx.check(pb not in it_none and (pb in it_ready) and (pb in it_alloc), RP, "C20/state-predicate/upsert-needs-ready", site(task, pb),
                      reason="a server can be added to the cache without being Ready or Allocated (or a Ready/Allocated one cannot)",
                      detail="push reachable iff state ∈ {Ready, Allocated}")
        nrem = {}
        for rb in rem_sites:
            kind = (cname(task.blocks[rb].term) or dname(task.blocks[rb].term)).split("::")[-1]
            nrem[kind] = nrem.get(kind, 0) + 1
            ctx.check(rb not in it_ready and rb not in it_alloc, RP, "C20/state-predicate/ready-not-removed/%s#%d" % (kind, nrem[kind]), site(task, rb),
                      reason="a Ready/Allocated server can be removed from the cache in the same iteration", detail="no removal after a Ready/Allocated match")
        if loop_head is not None:
            gn = s_none.g
            starts = gn.nodes_of_bb(first_bb)
            lookups = [bb for bb, _ in calls(task, ("Iterator::position", "retain", "Vec::<T, A>::retain"))]
            p = gn.path(starts, [loop_head], cut_nodes=lookups)
            # ... and a found entry is really taken out: from the Some edge of the lookup every path to the next iteration
            # passes a removing call (retain needs no lookup)
            some_starts = []
            for b2 in task.blocks:
                if b2.cleanup or b2.term.kind != "switch" or task.is_noise(b2.term) or b2.idx not in it_none:
                    continue
                e2, ls2 = an.switch_info(b2.idx, opt=True)
                x2 = flow.strip(e2)
                if x2[0] == "call" and flow.short(x2[1]).endswith(("Iterator::position", "Iterator::find")):
                    for tb, l in ls2.items():
                        if "Some" in l:
                            some_starts += gn.nodes_of_bb(tb)
            direct = [bb for bb, _ in calls(task, ("retain", "Vec::<T, A>::retain"))]
            q = gn.path(some_starts, [loop_head], cut_nodes=rem_sites) if some_starts else None
            removed = (bool(some_starts) and q is None) or (not some_starts and any(bb in it_none for bb in direct))
            ctx.check(removed, RP, "C20/state-predicate/other-states-entry-dropped", task.loc,
                      reason="a cached server that moved to another state is looked up but not removed from the cache",
                      detail="found entry is removed (swap_remove/retain) before the next iteration")
            ctx.check(p is None and bool(starts), RP, "C20/state-predicate/other-states-removed", task.loc,
                      reason="a server in another state (Shutdown, Unhealthy, Reserved, …) is not looked up for removal", detail="other states: entry with that identifier is removed")
    # upsert replaces in place: when an entry with that identifier is found it is overwritten by the new target on every path
    for b2 in task.blocks:
        if b2.cleanup or b2.term.kind != "switch" or task.is_noise(b2.term):
            continue
        e2, ls2 = an.switch_info(b2.idx, opt=True)
        x2 = flow.strip(e2)
        if x2[0] == "call" and flow.short(x2[1]).endswith("Iterator::find") and any("Some" in l for l in ls2.values()):
            some_t = [tb for tb, l in ls2.items() if "Some" in l]
            writes = []
            for wb, wi, ws in an.mem_writes:
                if task.is_noise(ws):
                    continue
                v = an.rvalue_expr(ws.rv, (wb, wi), 0)
                if [c for c in calls_in(v) if flow.short(c[1]).endswith(("TryInto::try_into", "TryFrom::try_from"))] and g.must_pass(wb, cut_edges=[(b2.idx, t) for t in some_t])[0]:
                    writes.append(wb)
            starts = []
            for t in some_t:
                starts += g.nodes_of_bb(t)
            p = g.path(starts, [loop_head], cut_nodes=writes) if (loop_head is not None and starts) else None
            ctx.check(bool(writes) and p is None, RP, "C20/state-predicate/upsert-overwrites-found-entry", site(task, b2.idx),
                      reason="a cached entry with the same identifier is not always replaced by the newly observed server (some path keeps the old address/metadata)",
                      detail="found entry := new target on every path")
    # removal / replacement are by identifier
    for c in ctx.prog.children(task.key):
        if c.kind != "Closure":
            continue
        f = boolform.function_formula(ctx, c)
        ats = boolform.atoms_of(f)
        if len(ats) == 1 and ats[0][0] == "Eq":
            a = ats[0]
            ok = any("identifier" in x for x in a[1:]) and all(("identifier" in x) or x.endswith("name") for x in a[1:])
            ctx.check(ok, RP, "C20/state-predicate/match-by-identifier@" + c.key.split("::")[-1], c.loc,
                      reason="cache entries are matched by %s" % boolform.show(f), detail="entries matched by identifier == target.identifier")

    # ---- C20/single-writer
    RW = "C20/single-writer"
    writers = []
    for k, b in ctx.prog.lib_bodies.items():
        if k.startswith("passage_adapters_agones::"):
            for bb, t in calls(b, ("RwLock::<T>::write", "RwLock::write", "blocking_write", "try_write")):
                writers.append(k)
    ctx.check(sorted(set(writers)) == [task.key], RW, "C20/single-writer/only-watcher-writes", task.loc,
              reason="the cache is write-locked in %s" % sorted(set(writers)), detail="cache written only by the watcher task")
    db = ctx.body(r"^passage_adapters_agones::discovery_adapter::\{impl#\d+\}::discover::\{closure#0\}$", rule=RW)
    if db is not None:
        dan = ctx.an(db)
        r = return_expr(dan)
        oks = find_all(r, lambda x: x[0] == "agg" and x[1].endswith("Result::Ok"))
        ok = False
        if len(oks) == 1:
            v = oks[0][2][0][1]
            ok = bool(calls_in(v, "Clone::clone")) and bool([c for c in calls_in(v) if flow.short(c[1]).endswith("RwLock::<T>::read") or flow.short(c[1]).endswith("RwLock::read")]) \
                and bool(find_all(v, lambda x: x[0] == "field" and x[2] == "inner"))
        ctx.check(ok, RW, "C20/single-writer/discover-snapshot", db.loc, reason="discover returns %s; expected self.inner.read().await.clone()" % render(r, maxdepth=5),
                  detail="discover = inner.read().await.clone()")
    # the task's cache is the adapter's cache
    ret = return_expr(nan)
    selfs = find_all(ret, lambda x: x[0] == "agg" and x[1].endswith("AgonesDiscoveryAdapter::AgonesDiscoveryAdapter"))
    same = False
    if selfs:
        a = [c[4] for c in calls_in(dict(selfs[0][2]).get("inner", ("unknown", "")), "Arc::<T>::new") + calls_in(dict(selfs[0][2]).get("inner", ("unknown", "")), "Arc::new")]
        # the task captures (a clone of) that very Arc, under whatever local name
        for cap in caps.values():
            b2 = [c[4] for c in calls_in(cap, "Arc::<T>::new") + calls_in(cap, "Arc::new")]
            if a and a == b2:
                same = True
    ctx.check(same, RW, "C20/single-writer/same-cache", nb.loc, reason="the watcher task writes a different cache than discover() reads", detail="task and adapter share one Arc<RwLock<Vec<Target>>>")

    # ---- C20/continues-after-error
    RC = "C20/continues-after-error"
    if loop_head is not None:
        err_edges, none_edges = [], []
        for b in task.blocks:
            if b.cleanup or b.term.kind != "switch" or task.is_noise(b.term):
                continue
            e, ls = an.switch_info(b.idx)
            x = flow.strip(e)
            if x[0] == "select_out" and flow.strip(x[3])[0] == "call" and flow.short(flow.strip(x[3])[1]).endswith(("try_next", "StreamExt::next")):
                err_edges += [tb for tb, l in ls.items() if "Err" in l]
        ctx.check(bool(err_edges), RC, "C20/continues-after-error/matched", task.loc, reason="stream errors are not matched", detail="stream result matched")
        for tb in err_edges:
            p = g.path(g.nodes_of_bb(tb), [loop_head])
            rets = [b.idx for b in task.blocks if b.term.kind == "return" and not b.cleanup]
            q = g.path(g.nodes_of_bb(tb), rets, cut_nodes=[loop_head])
            # a watch error carries no information about which servers exist: the cache is not touched on that path
            reach_e = set(g.bb(n) for n in g.reachable(g.nodes_of_bb(tb), cut_nodes=[loop_head]))
            touched = [(cname(t2) or dname(t2)).split("::")[-1] for b2, t2 in task.calls() if b2 in reach_e and not task.is_noise(t2)
                       and (cname(t2) or dname(t2)).split("::")[-1] in ("write", "blocking_write", "try_write", "clear", "retain", "push", "swap_remove", "remove", "truncate", "drain")]
            ctx.check(not touched, RC, "C20/continues-after-error/error-keeps-cache", site(task, tb),
                      reason="on a watch error the task modifies the cache (%s): the watcher resumes without replaying unchanged servers, so healthy Ready/Allocated "
                             "servers stop being offered until they happen to change" % sorted(set(touched)),
                      detail="the error arm leaves the cache as it is")
            ctx.check(p is not None and q is None, RC, "C20/continues-after-error/loops", site(task, tb),
                      reason="a watch-stream error ends the watcher task (the cache would freeze)", detail="stream error -> next iteration")

    mapping(ctx)


def mapping(ctx):
    R = "C20/mapping"
    mb = [b for b in ctx.prog.find_bodies(r"^passage_adapters_agones::\{impl#\d+\}::try_from$") if "GameServer" in b.name and "Target" in b.name]
    ctx.exact(R, "TryFrom<GameServer> for Target", len(mb), 1)
    if len(mb) != 1:
        return
    b = mb[0]
    an = ctx.an(b)
    r = return_expr(an)
    oks = find_all(r, lambda x: x[0] == "agg" and x[1].endswith("Result::Ok"))
    ctx.exact(R, "Ok(Target{..})", len(oks), 1, b.loc)
    if len(oks) != 1:
        return
    t = flow.strip(oks[0][2][0][1])
    f = dict(t[2]) if t[0] == "agg" else {}
    idv = f.get("identifier", ("unknown", ""))
    x = flow.strip(idv)
    ok = x[0] == "try" and bool(calls_in(x, "ok_or")) and param_path(flow.strip(calls_in(x, "ok_or")[0][3][0]))[1][-2:] == ["metadata", "name"]
    ctx.check(ok, R, "C20/mapping/identifier", b.loc, reason="identifier <- %s; expected server.metadata.name.ok_or(NoName)?" % render(idv, maxdepth=5),
              detail="identifier <- metadata.name (missing -> Err)")
    ad = flow.strip(f.get("address", ("unknown", "")))
    aok = False
    if ad[0] == "call" and flow.short(ad[1]).endswith("SocketAddr::new"):
        ip, port = flow.strip(ad[3][0]), flow.strip(ad[3][1])
        ipok = ip[0] == "try" and bool(calls_in(ip, "str::parse") + calls_in(ip, "::parse")) and bool(find_all(ip, lambda y: y[0] == "field" and y[2] == "address"))
        pok = port[0] == "try" and bool(calls_in(port, "::first")) and bool(find_all(port, lambda y: y[0] == "field" and y[2] == "ports")) and bool(calls_in(port, "ok_or"))
        aok = ipok and pok
        if pok:
            for c in ctx.prog.children(b.key):
                rr = flow.strip(return_expr(ctx.an(c)))
                if rr[0] == "field" and rr[2] in ("port", "container_port", "containerPort"):
                    aok = aok and rr[2] == "port"
    ctx.check(aok, R, "C20/mapping/address", b.loc, reason="address <- %s; expected SocketAddr::new(status.address.parse()?, status.ports.first().map(port).ok_or(NotPublic)?)" % render(ad, maxdepth=6),
              detail="address <- (status.address.parse()?, status.ports.first().port)")
    meta = f.get("meta", ("unknown", ""))
    ins = calls(b, ("HashMap::<K, V, S>::insert", "HashMap::insert"))
    src = {"counters": False, "lists": False, "labels": False, "annotations": False}
    for bb, t in ins:
        k = arg(an, bb, t, 1)
        for nm in src:
            e = an.operand_expr(t.args[1], (bb, "term"))
            if find_all(e, lambda y: (y[0] == "field" and y[2] == nm) or (y[0] == "call" and flow.short(y[1]).endswith("::" + nm))):
                src[nm] = True
    st = find_all(meta, lambda y: y[0] == "constitem" and y[1].endswith("META_STATE")) and find_all(meta, lambda y: y[0] == "field" and y[2] == "state")
    ctx.check(bool(st), R, "C20/mapping/meta-state", b.loc, reason="meta does not start from {META_STATE: status.state}", detail="meta[\"state\"] <- status.state")
    for nm, okk in sorted(src.items()):
        ctx.check(okk, R, "C20/mapping/meta-" + nm, b.loc, reason="meta is not extended with the server's %s" % nm, detail="meta ⊇ %s" % nm)
    muts = find_all(meta, lambda y: y[0] == "mut" and any(m.endswith("insert") for m in y[2]))
    ctx.check(bool(muts), R, "C20/mapping/meta-returned", b.loc, reason="the returned meta is not the map that was filled", detail="returned meta is the filled map")
    # the status is required
    # `status.ok_or(err)?`, `ok_or_else(|| err)?`, or `let Some(status) = .. else { return Err(..) }`: the status is taken through a
    # fallible projection whose failure leaves the function
    stt = [c for c in calls_in(r) if flow.short(c[1]).split("::")[-1] in ("ok_or", "ok_or_else", "context", "with_context")
           and find_all(c, lambda y: y[0] == "field" and y[2] == "status")]
    if not stt:
        for blk in b.blocks:
            if blk.cleanup or blk.term.kind != "switch" or b.is_noise(blk.term):
                continue
            e, ls = an.switch_info(blk.idx, opt=True)
            if find_all(e, lambda y: y[0] == "field" and y[2] == "status") and any("None" in l for l in ls.values()):
                from .. import events
                ev = events.extract(ctx, b)
                g2 = ctx.graph(b)
                starts = []
                for tb, l in ls.items():
                    if "None" in l:
                        starts += g2.nodes_of_bb(tb)
                reach = set(g2.bb(n) for n in g2.reachable(starts))
                outs = [x for bb2, es in ev.items() if bb2 in reach for _, x, _ in es if x.startswith("ret:")]
                if outs and all(o.startswith("ret:err") for o in outs):
                    stt = [e]
    ctx.check(bool(stt), R, "C20/mapping/status-required", b.loc, reason="a GameServer without status is not an error", detail="missing status -> Err")

"""shared analysis of passage_protocol::cookie::verify (C02/verify-shape, C04 slicing discharge)"""
from ..lib import *  # noqa: F401,F403
from .. import flow
from ..sample import Samples


def slice_norm(e):
    """(param, start, end|None) for an expression denoting a sub-slice of a slice parameter, however spelled:
    p[a..], p[..b], p[a..b], p.split_at(n).0 / .1; nested slicing composes. None if e is not such an expression."""
    e = flow.strip(e)
    if e[0] == "param" or param_name(e):
        n = param_name(e)
        return (n, 0, None) if n else None
    if e[0] == "call" and flow.short(e[1]).endswith("Index::index") and len(e[3]) == 2:
        base = slice_norm(e[3][0])
        rng = flow.strip(e[3][1])
        if base is None or rng[0] != "agg":
            return None
        f = dict((k, int_value(v)) for k, v in rng[2])
        kind = rng[1].split("::")[-1]
        if kind == "RangeTo":
            s, t = 0, f.get("end")
        elif kind == "RangeFrom":
            s, t = f.get("start"), None
        elif kind == "Range":
            s, t = f.get("start"), f.get("end")
        elif kind == "RangeFull":
            s, t = 0, None
        else:
            return None
        if s is None or (t is None and kind in ("RangeTo", "Range")):
            return None
        return _compose(base, s, t)
    if e[0] == "field" and e[2] in ("0", "1"):
        c = flow.strip(e[1])
        # the Some payload of split_at_checked / split_first_chunk is the same pair
        if c[0] == "field" and c[2] == "0" and flow.strip(c[1])[0] == "variant" and flow.strip(c[1])[2] == "Some":
            inner = flow.strip(flow.strip(c[1])[1])
            if inner[0] == "call" and flow.short(inner[1]).endswith("split_at_checked"):
                c = inner
        if c[0] == "call" and flow.short(c[1]).endswith(("split_at", "split_at_checked")) and len(c[3]) == 2:
            base = slice_norm(c[3][0])
            mid = int_value(c[3][1])
            if base is None or mid is None:
                return None
            return _compose(base, 0, mid) if e[2] == "0" else _compose(base, mid, None)
    return None


def _compose(base, s, t):
    p, bs, bt = base
    ns = bs + s
    nt = (bs + t) if t is not None else bt
    return (p, ns, nt)


def slicing_sites(ctx, vb):
    """[(bb, what, needed_length)]: calls that panic unless the slice parameter is at least that long"""
    an = ctx.an(vb)
    out = []
    for bb, t in calls(vb, "Index::index"):
        base = slice_norm(arg(an, bb, t, 0))
        rng = flow.strip(arg(an, bb, t, 1))
        need = None
        if base is not None and base[1] == 0 and base[2] is None and rng[0] == "agg":
            f = dict((k, int_value(v)) for k, v in rng[2])
            vals = [v for v in f.values() if v is not None]
            if len(vals) == len(f):
                need = max(vals) if vals else 0
        out.append((bb, "index", need))
    for bb, t in calls(vb, ("split_at", "split_at_mut")):
        base = slice_norm(arg(an, bb, t, 0))
        mid = int_value(arg(an, bb, t, 1))
        out.append((bb, "split_at", mid if (base is not None and base[1] == 0 and base[2] is None) else None))
    return out


def verify_samples(ctx, vb, needs):
    def atom(x, L):
        x = flow.strip(x)
        if x[0] == "call" and flow.short(x[1]).endswith("len") and x[3] and param_name(x[3][0]) == "signed":
            return L
        return None
    def switch_eval(e, ls, L):
        # `signed.split_at_checked(n)` / `signed.get(..n)` are Some iff len >= n
        x = flow.strip(e)
        if x[0] == "call" and flow.short(x[1]).endswith("split_at_checked") and len(x[3]) == 2 and param_name(x[3][0]) == "signed":
            n = int_value(x[3][1])
            if n is not None:
                return ("Some",) if L >= n else ("None",)
        return None
    vals = sorted(set([0, 1, 1000] + [v for n in needs if n for v in (n - 1, n, n + 1)]))
    return Samples(ctx, vb, atom, vals, switch_eval=switch_eval)

"""C18 — Built-in filters and strategies never pick a disqualified target (DESIGN §5 C18)."""
import re

from ..lib import *  # noqa: F401,F403
from .. import flow, boolform
from ..boolform import T, F, f_and, f_or, f_not, canon

EXPLANATION = ("decision DAGs: every bool-valued rule body (FilterOperation::matches and its closures, matches_filters, "
               "the allow/block guards, the host-name scope, the capacity predicate) is enumerated path by path into a "
               "formula over atoms (present, eq, member, configured-list, regex match) and compared with the reference "
               "truth table for all valuations; plus provenance/shape rules for list threading (chains), the two "
               "strategies (first / arg-max below capacity) and the configuration -> adapter construction and dispatch")
DECIDED = [
    "FilterOperation::matches per variant: Equals=eq, NotEquals=¬eq, Exists=present, NotExists=¬present, In=present∧member, NotIn=¬present∨¬member",
    "FilterRule::matches feeds target.meta.get(self.key); matches_filters = empty ∨ all(rule.matches(target)); MetaFilterAdapter keeps exactly targets.into_iter().filter(matches_filters).collect()",
    "OptionFilterAdapter returns the input list untouched iff a host pattern is configured and does not match server_addr.0, else delegates with unchanged arguments",
    "allow returns the input iff any configured list/pattern matches the player (name list, name pattern, id list), else empty; block is its mirror image",
    "filter chains thread the list: first gets targets, each next gets the previous result, errors propagate",
    "AnyStrategy = targets.first().cloned(); PlayerFill = max_by_key(players) over entries with players < self.max_players, players = meta[self.field].parse::<u32>() or 0, result is a clone of an input element",
    "configuration variants construct the same-named adapters with the like-named fields; From<config::FilterOperation> is the identity; Dyn* dispatch forwards all arguments unchanged",
]
UNDECIDED = ["regex semantics", "which target max_by_key returns among equals (any satisfies the statement)"]
TRUSTED = ["Iterator::filter/max_by_key/any/all, HashMap::get, regex::Regex::is_match"]


def check(ctx):
    operators(ctx)
    meta_adapter(ctx)
    scope(ctx)
    allow_block(ctx)
    chains(ctx)
    strategies(ctx)
    config_mapping(ctx)
    dispatch(ctx)


# ---- operators -----------------------------------------------------------------------------------
def operators(ctx):
    R = "C18/operators"
    b = ctx.body(r"^passage_adapters::filter::meta::\{impl#\d+\}::matches$", required=False)
    bs = [x for x in ctx.prog.find_bodies(r"^passage_adapters::filter::meta::\{impl#\d+\}::matches$") if "FilterOperation" in x.name]
    ctx.exact(R, "FilterOperation::matches", len(bs), 1)
    if len(bs) != 1:
        return
    b = bs[0]
    f = boolform.function_formula(ctx, b)
    ats = boolform.atoms_of(f)
    role = {}
    unknown = []
    for a in ats:
        if a[0] == "is" and a[1] == "param:self":
            role[a] = "sel:" + a[2]
        elif a == ("some", "param:field_value"):
            role[a] = "present"
        elif a[0] == "Eq" and "param:field_value" in a[1:] and any(re.match(r"Some\(param:self@(Equals|NotEquals)\.0\)$", x) for x in a[1:]):
            role[a] = "eq"
        elif a[0] == "any" and re.match(r"param:self@(In|NotIn)\.0$", a[1]) and a[2] == "('Eq', 'ELEM', 'param:field_value@Some.0')":
            role[a] = "member"
        else:
            unknown.append(a)
    ctx.check(not unknown, R, "C18/operators/atoms", b.loc,
              reason="unrecognised-implementation: FilterOperation::matches tests %s" % unknown,
              detail="atoms: %s" % sorted(set(role.values())))
    if unknown:
        return
    want = {
        "Equals": lambda v: v["eq"], "NotEquals": lambda v: not v["eq"], "Exists": lambda v: v["present"],
        "NotExists": lambda v: not v["present"], "In": lambda v: v["present"] and v["member"],
        "NotIn": lambda v: (not v["present"]) or (not v["member"]),
    }
    variants = sorted(set(r[4:] for r in role.values() if r.startswith("sel:")))
    ctx.check(variants == sorted(want), R, "C18/operators/variants", b.loc,
              reason="operator variants handled: %s; expected %s" % (variants, sorted(want)), detail="all six operators handled")
    rows = 0
    for V in sorted(want):
        bad = None
        for present in (False, True):
            for eq in (False, True):
                for member in (False, True):
                    if (eq or member) and not present:
                        continue   # eq/member imply presence
                    sem = {"present": present, "eq": eq, "member": member}
                    val = {}
                    for a, r in role.items():
                        val[a] = (r == "sel:" + V) if r.startswith("sel:") else sem[r]
                    rows += 1
                    got = boolform.evalf(f, val)
                    if got != want[V](sem):
                        bad = (sem, got)
        ctx.check(bad is None, R, "C18/operators/" + V, b.loc,
                  reason="%s evaluates to %s for %s; reference truth table disagrees" % (V, bad[1] if bad else None, bad[0] if bad else None),
                  detail="%s matches the reference truth table" % V)
    ctx.sites_inspected += rows


def meta_adapter(ctx):
    R = "C18/operators"
    prog = ctx.prog
    rb = [x for x in prog.find_bodies(r"^passage_adapters::filter::meta::\{impl#\d+\}::matches$") if "FilterRule" in x.name]
    ctx.exact(R, "FilterRule::matches", len(rb), 1)
    if len(rb) == 1:
        an = ctx.an(rb[0])
        r = flow.strip(return_expr(an))
        ok = False
        if r[0] == "call" and flow.short(r[1]).endswith("FilterOperation::matches"):
            op, fv = r[3][0], r[3][1]
            gets = [c for c in calls_in(fv, "::get")]
            ok = param_path(op) == ("self", ["operation"]) and len(gets) == 1 and param_path(gets[0][3][0]) == ("target", ["meta"]) \
                and param_path(gets[0][3][1]) == ("self", ["key"])
        ctx.check(ok, R, "C18/operators/rule-feeds-meta-value", rb[0].loc,
                  reason="FilterRule::matches is %s; expected self.operation.matches(target.meta.get(&self.key)..)" % render(r, maxdepth=5),
                  detail="rule.matches(t) = self.operation.matches(t.meta.get(self.key))")
    mb = ctx.body(r"^passage_adapters::filter::meta::\{impl#\d+\}::matches_filters$", rule=R)
    if mb is not None:
        f = boolform.function_formula(ctx, mb)
        ats = boolform.atoms_of(f)
        empty = [a for a in ats if a[0] == "empty" and a[1] == "param:self.rules"]
        alls = [a for a in ats if a[0] == "all" and a[1] == "param:self.rules"]
        rest = [a for a in ats if a not in empty + alls]
        ok = len(alls) == 1 and not rest and len(empty) <= 1
        if ok:
            ref = f_or(*([("atom", empty[0])] if empty else []) + [("atom", alls[0])])
            okk, cex, rows = boolform.equivalent(f, ref, ats)
            ok = okk
            inner = alls[0][2]
            ok = ok and "FilterRule::matches(ELEM,param:target)" in inner.replace(" ", "") or ok and "matches(ELEM,param:target)" in inner.replace(" ", "")
        ctx.check(ok, R, "C18/operators/all-rules-and", mb.loc,
                  reason="matches_filters is %s; expected rules.is_empty() ∨ rules.iter().all(|r| r.matches(target))" % boolform.show(f),
                  detail="matches_filters = empty ∨ all(rule.matches(target))")
    fb = ctx.body(r"^passage_adapters::filter::meta::\{impl#\d+\}::filter::\{closure#0\}::\{closure#0\}$", rule=R)
    if fb is not None:
        an = ctx.an(fb)
        r = return_expr(an)
        oks = find_all(r, lambda x: x[0] == "agg" and x[1].endswith("Result::Ok"))
        ok = False
        if len(oks) == 1:
            v = flow.strip(oks[0][2][0][1])
            if v[0] == "call" and flow.short(v[1]).endswith("Iterator::collect"):
                fl = flow.strip(v[3][0])
                if fl[0] == "call" and flow.short(fl[1]).endswith("Iterator::filter"):
                    src = flow.strip(fl[3][0])
                    srcok = param_path(src) == ("targets", []) and not (calls_in(fl[3][0], "Iterator::rev") or calls_in(fl[3][0], "Iterator::skip") or calls_in(fl[3][0], "Iterator::take"))
                    clo = flow.strip(fl[3][1])
                    pred = boolform.closure_formula(ctx, clo, ["ELEM"])
                    pa = boolform.atoms_of(pred)
                    predok = pred[0] == "atom" and "matches_filters" in str(pred[1]) and "ELEM" in str(pred[1])
                    ok = srcok and predok
            # in place: targets.retain(|t| self.matches_filters(t)); Ok(targets)
            if not ok and param_path(v) == ("targets", []):
                rts = calls(fb, ("Vec::<T, A>::retain", "Vec::retain"))
                # every call that may change the list: a `&mut` argument that is (a view of) `targets`
                changers = [(bb2, t2) for bb2, t2 in fb.calls() if not fb.is_noise(t2)
                            and any(str(ty).startswith("&mut") and param_path(arg(an, bb2, t2, i)) == ("targets", []) for i, ty in enumerate(t2.argtys))]
                if len(rts) == 1 and changers == [rts[0]]:
                    rb_, rt_ = rts[0]
                    pred = boolform.closure_formula(ctx, flow.strip(arg(an, rb_, rt_, 1)), ["ELEM"])
                    predok = pred[0] == "atom" and "matches_filters" in str(pred[1]) and "ELEM" in str(pred[1])
                    ok = predok and param_path(arg(an, rb_, rt_, 0)) == ("targets", [])
        ctx.check(ok, R, "C18/operators/filter-keeps-matching", fb.loc,
                  reason="MetaFilterAdapter::filter returns %s; expected targets.into_iter().filter(|t| self.matches_filters(t)).collect()" % render(r, maxdepth=6),
                  detail="filter = targets.into_iter().filter(matches_filters).collect() (order preserved)")


def outcomes(ctx, body):
    """[(formula of path conditions, outcome)] with outcome 'all' (Ok(param targets)), 'none' (Ok(empty vec)),
    'delegate' (inner filter call with unchanged args) or 'other:<text>'"""
    an = ctx.an(body)
    out = []
    def plumbing(e):
        # the await/`?` plumbing of delegation
        x = flow.strip(e)
        return (x[0] == "call" and flow.short(x[1]).endswith(("Future::poll", "Try::branch"))) or x[0] == "await"
    for conds, blocks in boolform.paths(ctx, body, loops=True):
        cf = boolform.conds_formulas(ctx, body, conds, None, skip=plumbing)
        v = boolform.path_value(ctx, body, blocks)
        out.append((f_and(*cf), classify_result(v), blocks))
    return out


def classify_result(v):
    if v is None:
        return "other:none"
    x = flow.strip(v)
    if x[0] == "agg" and x[1].endswith("Result::Ok"):
        p = flow.strip(x[2][0][1])
        if param_path(p) == ("targets", []):
            return "all"
        if p[0] == "call" and flow.short(p[1]).endswith(("Vec::<T>::new", "Vec::new", "slice::into_vec", "into_vec")):
            inner = [a for a in p[3]]
            return "none"
        if p[0] == "call" and flow.short(p[1]).endswith("Default::default"):
            return "none"
        return "other:" + render(p, maxdepth=3)
    if x[0] == "await" or (x[0] == "field" and flow.strip(x[1])[0] == "variant"):
        return "delegate:" + render(x, maxdepth=2)
    if x[0] == "call" and flow.short(x[1]).endswith("from_residual"):
        return "error"
    return "other:" + render(x, maxdepth=3)


def scope(ctx):
    R = "C18/scope"
    b = ctx.body(r"^passage_adapters::filter::option::\{impl#\d+\}::filter::\{closure#0\}$", rule=R)
    if b is None:
        return
    an = ctx.an(b)
    # the early return Ok(targets) and the delegation
    passthrough = []
    for conds, blocks in boolform.paths(ctx, b):
        v = boolform.path_value(ctx, b, blocks)
        if classify_result(v) == "all":
            cf = []
            for sb, tb in conds:
                e, ls = an.switch_info(sb)
                x = flow.strip(e)
                if x[0] == "call" and flow.short(x[1]).endswith(("Future::poll", "Try::branch")) or x[0] == "await":
                    continue
                cf.append(boolform.cond_formula(ctx, e, ls.get(tb, []), None))
            passthrough.append(f_and(*cf))
    f = f_or(*passthrough)
    ats = boolform.atoms_of(f)
    cfg = [a for a in ats if a[0] == "is" and a[1] == "cap:self.hostname" or a == ("some", "cap:self.hostname") or (a[0] == "is" and "hostname" in a[1])]
    mt = [a for a in ats if a[0] == "match"]
    ok = len(cfg) == 1 and len(mt) == 1 and len(ats) == 2
    if ok:
        c, m = cfg[0], mt[0]
        ok = "hostname" in m[1] and m[2] in ("cap:server_addr.0", "param:server_addr.0")
        if c[0] == "is":
            ref = f_and(("atom", c), f_not(("atom", m))) if c[2] == "Some" else f_and(f_not(("atom", c)), f_not(("atom", m)))
        else:
            ref = f_and(("atom", c), f_not(("atom", m)))
        okk, cex, rows = boolform.equivalent(f, ref, ats)
        ok = ok and okk
    ctx.check(ok, R, "C18/scope/passthrough-iff-pattern-misses", b.loc,
              reason="the list is returned untouched iff %s; expected: hostname pattern configured ∧ ¬pattern.is_match(server_addr.0)" % boolform.show(f),
              detail="untouched iff hostname is Some ∧ ¬is_match(server_addr.0)")
    dl = calls(b, "FilterAdapter::filter")
    ctx.exact(R, "delegation to the inner filter", len(dl), 1, b.loc)
    for bb, t in dl:
        names = [param_path(arg(an, bb, t, i)) for i in range(1, 6)]
        recv = arg(an, bb, t, 0)
        ok = names == [("client_addr", []), ("server_addr", []), ("protocol", []), ("user", []), ("targets", [])] and param_path(recv) == ("self", ["filter"])
        ctx.check(ok, R, "C18/scope/delegates-unchanged", site(b, bb),
                  reason="inner filter called with %s on %s" % (names, render(recv, maxdepth=3)), detail="self.filter.filter(client_addr, server_addr, protocol, user, targets)")
        r = return_expr(an)
        aw = [x for x in find_all(r, lambda x: x[0] == "await") if flow.strip(x[1])[0] == "call" and flow.strip(x[1])[4] == bb]
        ctx.check(bool(aw), R, "C18/scope/returns-inner-result", site(b, bb), reason="the inner result is not what is returned",
                  detail="returns the inner filter's result")


def allow_block(ctx):
    R = "C18/allow-block"
    forms = {}
    for kind in ("player_allow", "player_block"):
        b = ctx.body(r"^passage_adapters::filter::%s::\{impl#\d+\}::filter::\{closure#0\}::\{closure#0\}$" % kind, rule=R)
        if b is None:
            continue
        outs = outcomes(ctx, b)
        kinds = sorted(set(o for _, o, _ in outs))
        ctx.check(set(kinds) <= {"all", "none"} and len(kinds) == 2, R, "C18/allow-block/%s/outcomes" % kind, b.loc,
                  reason="%s returns %s; expected only Ok(targets) or Ok(vec![])" % (kind, kinds), detail="%s returns the input list or nothing" % kind)
        hit = "all" if kind == "player_allow" else "none"
        f = f_or(*[c for c, o, _ in outs if o == hit])
        g = f_or(*[c for c, o, _ in outs if o != hit])
        ats = boolform.atoms_of(f_or(f, g))
        role = {}
        unknown = []
        for a in ats:
            s = str(a)
            if a[0] == "some" and re.search(r"self\.(usernames|username|ids)$", a[1]):
                role[a] = ("cfg", re.search(r"self\.(usernames|username|ids)$", a[1]).group(1), "Some")
            elif a[0] == "is" and a[2] in ("Some", "None") and re.search(r"self\.(usernames|username|ids)$", a[1]):
                fld = re.search(r"self\.(usernames|username|ids)$", a[1]).group(1)
                role[a] = ("cfg", fld, a[2])
            elif a[0] == "any" and re.search(r"self\.(usernames|ids)@Some\.0$", a[1]):
                fld = re.search(r"self\.(usernames|ids)@Some\.0$", a[1]).group(1)
                want = "username" if fld == "usernames" else "user_id"
                if re.search(r"'ELEM'", a[2]) and want in a[2] and a[2].startswith("('Eq'"):
                    role[a] = ("hit", fld)
                else:
                    unknown.append(a)
            elif a[0] == "match" and re.search(r"self\.username@Some\.0$", a[1]) and "username" in a[2]:
                role[a] = ("hit", "username")
            else:
                unknown.append(a)
        ctx.check(not unknown, R, "C18/allow-block/%s/atoms" % kind, b.loc,
                  reason="unrecognised-implementation: %s tests %s" % (kind, unknown), detail="%s atoms: %s" % (kind, sorted(set(map(str, role.values())))))
        if unknown:
            continue
        flds = ("usernames", "username", "ids")
        bad = None
        rows = 0
        import itertools
        for cfgbits in itertools.product([False, True], repeat=3):
            for hitbits in itertools.product([False, True], repeat=3):
                sem_cfg = dict(zip(flds, cfgbits))
                sem_hit = dict(zip(flds, hitbits))
                val = {}
                for a, r in role.items():
                    if r[0] == "cfg":
                        val[a] = sem_cfg[r[1]] if r[2] == "Some" else not sem_cfg[r[1]]
                    else:
                        val[a] = sem_hit[r[1]]
                rows += 1
                expect = any(sem_cfg[x] and sem_hit[x] for x in flds)
                if boolform.evalf(f, val) != expect or boolform.evalf(g, val) != (not expect):
                    bad = (sem_cfg, sem_hit)
        ctx.sites_inspected += rows
        ctx.check(bad is None, R, "C18/allow-block/%s/truth-table" % kind, b.loc,
                  reason="%s: for configured=%s matching=%s the result is not `%s iff some configured list matches the player`" % (kind, bad[0] if bad else "", bad[1] if bad else "", hit),
                  detail="%s: Ok(%s) iff (usernames∋name) ∨ (pattern matches name) ∨ (ids∋id), each only when configured" % (kind, "targets" if hit == "all" else "vec![]"))
        forms[kind] = sorted(set(map(str, role.values())))
    if len(forms) == 2:
        ctx.check(forms["player_allow"] == forms["player_block"], R, "C18/allow-block/mirror", "",
                  reason="allow and block evaluate different criteria: %s vs %s" % (forms["player_allow"], forms["player_block"]),
                  detail="allow and block test the same three criteria")


def chains(ctx):
    R = "C18/chain"
    for rx, label, recvf in ((r"^passage::adapter::filter::\{impl#\d+\}::filter::\{closure#0\}$", "DynFilterAdapters", "filters"),
                             (r"^passage_adapters::filter::\{impl#\d+\}::filter::\{closure#0\}$", "Vec<T>", None)):
        bs = [b for b in ctx.prog.find_bodies(rx) if calls(b, "Iterator::next")]
        ctx.exact(R, "chain body %s" % label, len(bs), 1)
        if len(bs) != 1:
            continue
        b = bs[0]
        an = ctx.an(b)
        fc = calls(b, "FilterAdapter::filter")
        ctx.exact(R, "inner filter call in %s" % label, len(fc), 1, b.loc)
        if len(fc) != 1:
            continue
        bb, t = fc[0]
        lst = arg(an, bb, t, 5)
        cells = find_all(lst, lambda x: x[0] == "cell")
        ok = False
        why = "the list given to each filter is %s" % render(lst, maxdepth=5)
        if cells:
            vals = flow.strip(cells[0])
            alts = vals[1] if vals[0] == "phi" else (vals,)
            srcs = set()
            for a in alts:
                a = flow.strip(a)
                if param_path(a) == ("targets", []):
                    srcs.add("input")
                elif a[0] == "try" and flow.strip(a[1])[0] == "await" and flow.strip(flow.strip(a[1])[1])[0] == "call" and flow.strip(flow.strip(a[1])[1])[4] == bb:
                    srcs.add("previous")
                else:
                    srcs.add("other:" + render(a, maxdepth=2))
            ok = srcs == {"input", "previous"}
            why = "list sources: %s" % sorted(srcs)
        ctx.check(ok, R, "C18/chain/%s/threads-list" % label, site(b, bb), reason=why + "; expected the input for the first filter and the previous result afterwards",
                  detail="%s: filter i+1 receives filter i's result (?-propagated)" % label)
        others = [param_path(arg(an, bb, t, i)) for i in range(1, 5)]
        ctx.check(others == [("client_addr", []), ("server_addr", []), ("protocol", []), ("user", [])], R, "C18/chain/%s/context" % label, site(b, bb),
                  reason="filters are called with %s" % others, detail="%s: same request context for every filter" % label)
        # the loop over the filters is left only when the list of filters is exhausted or a filter failed (`?`): no early exit
        gch = ctx.graph(b)
        nxt = [(nb2, nt2) for nb2, nt2 in calls(b, "Iterator::next")]
        early = []
        if nxt:
            hb = nxt[0][0]
            loop_blocks = set(x for x in range(len(b.blocks)) if not b.blocks[x].cleanup
                              and gch.path(gch.nodes_of_bb(x), [hb]) is not None and gch.path(gch.nodes_of_bb(hb), [x]) is not None)
            for x in sorted(loop_blocks):
                blk = b.blocks[x]
                for y in blk.term.successors():
                    if y in loop_blocks or b.blocks[y].cleanup or b.blocks[y].term.kind == "unreachable":
                        continue
                    kind = None
                    if blk.term.kind == "switch":
                        e9, ls9 = an.switch_info(x)
                        labs = ls9.get(y, [])
                        x9 = flow.strip(e9)
                        if "None" in labs and x9[0] == "call" and flow.short(x9[1]).endswith("Iterator::next"):
                            kind = "exhausted"
                        elif "Break" in labs:
                            kind = "error"
                        elif b.is_noise(blk.term):
                            kind = "noise"
                        elif x9[0] == "call" and flow.short(x9[1]).endswith(("Future::poll",)) or x9[0] in ("await",):
                            kind = "poll"
                    elif blk.term.kind in ("yield", "drop", "goto", "call", "falseedge", "falseunwind", "assert"):
                        kind = "plumbing"
                    if kind is None:
                        early.append(site(b, x))
        ctx.check(not early, R, "C18/chain/%s/no-early-exit" % label, site(b, bb),
                  reason="the filter loop can be left before every filter ran, by a branch at %s that is neither the end of the list nor an error: the "
                         "remaining filters (block lists, later metadata rules) never see the surviving targets" % early,
                  detail="%s: the loop ends only when the filters are exhausted or one fails" % label)
        it = arg(an, bb, t, 0)
        nx = calls_in(it, "Iterator::next")
        ctx.check(bool(nx) and not calls_in(it, "Iterator::rev") and not calls_in(it, "Iterator::skip") and not calls_in(it, "Iterator::take"), R,
                  "C18/chain/%s/all-in-order" % label, site(b, bb), reason="filters are not applied front to back over the whole list: %s" % render(it, maxdepth=4),
                  detail="%s: every filter, in configuration order" % label)
        r = return_expr(an)
        oks = find_all(r, lambda x: x[0] == "agg" and x[1].endswith("Result::Ok"))
        rok = len(oks) == 1 and bool(find_all(oks[0], lambda x: x[0] == "cell" and x[1] == cells[0][1])) if cells else False
        ctx.check(rok, R, "C18/chain/%s/returns-last" % label, b.loc, reason="the chain does not return the last filter's list", detail="%s returns the threaded list" % label)


def strategies(ctx):
    R = "C18/strategies"
    ab = ctx.body(r"^passage_adapters::strategy::any::\{impl#\d+\}::select::\{closure#0\}::\{closure#0\}$", rule=R)
    if ab is not None:
        an = ctx.an(ab)
        r = return_expr(an)
        oks = find_all(r, lambda x: x[0] == "agg" and x[1].endswith("Result::Ok"))
        ok = False
        if len(oks) == 1:
            v = oks[0][2][0][1]
            x = v
            while x[0] in ("ref", "deref", "mut", "cell"):
                x = x[3] if x[0] == "cell" else x[1]
            if x[0] == "call" and flow.short(x[1]).endswith("Option::<&T>::cloned") or (x[0] == "call" and flow.short(x[1]).endswith("cloned")):
                fst = flow.strip(x[3][0])
                ok = fst[0] == "call" and flow.short(fst[1]).endswith("::first") and param_path(fst[3][0]) == ("targets", [])
        ctx.check(ok, R, "C18/strategies/any-first", ab.loc, reason="AnyStrategy returns %s; expected targets.first().cloned()" % render(r, maxdepth=5),
                  detail="any = targets.first().cloned()")
    pb = ctx.body(r"^passage_adapters::strategy::player_fill::\{impl#\d+\}::select::\{closure#0\}::\{closure#0\}$", rule=R)
    if pb is None:
        return
    an = ctx.an(pb)
    r = return_expr(an)
    oks = find_all(r, lambda x: x[0] == "agg" and x[1].endswith("Result::Ok"))
    chain = []
    clos = {}
    if len(oks) == 1:
        x = oks[0][2][0][1]
        for _ in range(12):
            while x[0] in ("ref", "deref", "mut", "cell"):
                x = x[3] if x[0] == "cell" else x[1]
            if x[0] != "call":
                break
            nm = flow.short(x[1]).split("::")[-1]
            chain.append(nm)
            if len(x[3]) > 1:
                clos[nm] = x[3][1]
            if not x[3]:
                break
            last = x
            x = x[3][0]
    want = ["map", "max_by_key", "filter", "map", "iter"]
    SELECTORS = ("iter", "into_iter", "max_by_key", "min_by_key", "max_by", "min_by", "filter", "find", "fold", "reduce", "last", "next", "nth",
                 "first", "position", "rev", "skip", "take", "filter_map", "find_map")
    SIBLINGS = [("max_by_key", "min_by_key", "max_by", "min_by", "last", "next", "find", "reduce"), ("filter", "skip_while", "take_while"),
                ("iter", "into_iter"), ("map", "filter_map", "flat_map")]

    def sibling_substitution(c):
        """same pipeline structure as the reference with another adaptor of the same family in some slot (min_by_key for
        max_by_key, ..): recognisably the reference pipeline, changed — as opposed to a differently structured pipeline"""
        c = c[:len(want)]
        if len(c) != len(want) or c == want:
            return False
        for a, w in zip(c, want):
            if a != w and not any(a in fam and w in fam for fam in SIBLINGS):
                return False
        return True
    if chain[:5] != want and not sibling_substitution(chain):
        # neither the reference pipeline nor the reference pipeline with one adaptor exchanged for a sibling (min_by_key, ..): a
        # hand-written loop with an accumulator, or a differently structured pipeline (fused filter_map, fold, ..). Deciding "the
        # fullest target below capacity" for an arbitrary implementation is a verification problem, not a shape; the rule says so
        # instead of guessing
        # even without recognising the whole selection, the capacity clause can be read off: every test against self.max_players
        # must exclude a target that is exactly full (strict `players < max` / `max > players`); `<=`, `checked_sub` (Some(0) when
        # full) or `saturating_sub` admit a full target
        bodies = [pb]
        i0 = 0
        while i0 < len(bodies):
            for c0 in ctx.prog.children(bodies[i0].key):
                if c0 not in bodies:
                    bodies.append(c0)
            i0 += 1
        strict, loose = [], []
        for b0 in bodies:
            a0 = ctx.an(b0)
            for blk in b0.blocks:
                if blk.cleanup:
                    continue
                for si, st0 in enumerate(blk.stmts):
                    if st0.kind == "assign" and st0.rv.k == "binop" and st0.rv.j["op"] in ("Lt", "Le", "Gt", "Ge") and not b0.is_noise(st0):
                        l0, r0 = a0.operand_expr(st0.rv.ops[0], (blk.idx, si), 0), a0.operand_expr(st0.rv.ops[1], (blk.idx, si), 0)
                        lm = bool(find_all(l0, lambda y: y[0] == "field" and y[2] == "max_players"))
                        rm = bool(find_all(r0, lambda y: y[0] == "field" and y[2] == "max_players"))
                        if lm == rm:
                            continue
                        op = st0.rv.j["op"]
                        # normalise to "players OP max"
                        if lm:
                            op = {"Lt": "Gt", "Gt": "Lt", "Le": "Ge", "Ge": "Le"}[op]
                        (strict if op in ("Lt", "Ge") else loose).append("%s@%s" % (op, b0.site(st0)))
                t0 = blk.term
                if t0.kind == "call" and not b0.is_noise(t0):
                    nm0 = (cname(t0) or dname(t0)).split("::")[-1]
                    if nm0 in ("checked_sub", "saturating_sub", "wrapping_sub", "abs_diff", "cmp", "partial_cmp", "min", "max") and \
                            any(find_all(arg(a0, blk.idx, t0, k), lambda y: y[0] == "field" and y[2] == "max_players") for k in range(len(t0.args))):
                        loose.append("%s@%s" % (nm0, b0.site(t0)))
        if loose:
            ctx.fail(R, "C18/strategies/fill-below-capacity", pb.loc,
                     "the capacity test of PlayerFill::select is %s: a target whose player count EQUALS max_players is admitted (the statement requires "
                     "the chosen target to be below the configured capacity)" % sorted(set(loose)))
            return
        ctx.undecided(R, "C18/strategies/fill-chain", pb.loc,
                      "PlayerFill::select is not the reference pipeline iter().map(count).filter(<max).max_by_key(count).map(clone) nor that pipeline with "
                      "an adaptor exchanged (result built by %s); the selection rule (fullest target strictly below max_players, last wins on ties) is "
                      "not decided for this implementation" % (chain or "a loop"))
        return
    ctx.check(chain[:5] == want, R, "C18/strategies/fill-chain", pb.loc,
              reason="PlayerFill is computed by %s; expected targets.iter().map(count).filter(below capacity).max_by_key(count).map(clone)" % chain,
              detail="fill = iter.map(count).filter(<max).max_by_key(count).map(clone)")
    if chain[:5] != want:
        return
    src = last[3][0] if chain[4] == "iter" else None
    ctx.check(src is not None and param_path(src) == ("targets", []), R, "C18/strategies/fill-over-input", pb.loc,
              reason="the iteration is over %s" % (render(src, maxdepth=3) if src else "?"), detail="iterates the input targets")
    # closures in source order: {closure#0}=count, #1=capacity predicate, #2=key, #3=clone
    kids = sorted(ctx.prog.children(pb.key), key=lambda b: b.key)
    kids = [k for k in kids if k.kind == "Closure"]
    ctx.floor(R, "closures of PlayerFill::select", len(kids), 4, pb.loc)
    if len(kids) >= 4:
        cnt, pred, keyf, cl = kids[0], kids[1], kids[2], kids[3]
        ca = ctx.an(cnt)
        cr = flow.strip(return_expr(ca))
        ok = False
        why = render(cr, maxdepth=6)
        if cr[0] == "agg" and cr[1] == "tuple" and len(cr[2]) == 2:
            t0, pl = flow.strip(cr[2][0][1]), flow.strip(cr[2][1][1])
            if pl[0] == "call" and flow.short(pl[1]).endswith("Option::unwrap_or"):
                dflt = flow.strip(pl[3][1])
                inner = flow.strip(pl[3][0])
                gets = calls_in(inner, "::get")
                gok = len(gets) == 1 and param_path(gets[0][3][0])[1][-1:] == ["meta"] and "field" in canon(gets[0][3][1])
                ok = param_path(t0)[0] == "target" and dflt == ("const", "u32", 0) and gok and bool(calls_in(inner, "and_then"))
        ctx.check(ok, R, "C18/strategies/fill-count", cnt.loc,
                  reason="player count is %s; expected (target, target.meta.get(&self.field).and_then(parse::<u32>).unwrap_or(0))" % why,
                  detail="count = meta[self.field].parse::<u32>() or 0")
        # parse::<u32>
        parse_ok = False
        for k2 in ctx.prog.children(cnt.key):
            a2 = ctx.an(k2)
            rr = flow.strip(return_expr(a2))
            if rr[0] == "call" and flow.short(rr[1]).endswith("Result::<T, E>::ok") or (rr[0] == "call" and flow.short(rr[1]).endswith("::ok")):
                ps = calls_in(rr, "str::parse") + calls_in(rr, "::parse")
                parse_ok = any("u32" in " ".join(c[5]) for c in ps)
        ctx.check(parse_ok, R, "C18/strategies/fill-parse-u32", cnt.loc, reason="the count is not parsed as u32 with failures mapped to None",
                  detail="parse::<u32>().ok()")
        pf = boolform.function_formula(ctx, pred)
        pa = boolform.atoms_of(pf)
        ok = len(pa) == 1 and pa[0][0] == "Lt" and "max_players" in pa[0][2] and "max_players" not in pa[0][1] and pf[0] == "atom"
        ctx.check(ok, R, "C18/strategies/fill-below-capacity", pred.loc,
                  reason="capacity predicate is %s; expected players < self.max_players (strict)" % boolform.show(pf),
                  detail="eligible iff players < self.max_players")
        ka = ctx.an(keyf)
        kr = flow.strip(return_expr(ka))
        kp = field_path(kr)
        ctx.check(kp[1][-1:] == ["1"], R, "C18/strategies/fill-key-is-count", keyf.loc,
                  reason="max_by_key key is %s; expected the player count" % render(kr, maxdepth=3), detail="key = player count")
        la = ctx.an(cl)
        lr = return_expr(la)
        x = lr
        cloned = bool(calls_in(lr, "Clone::clone")) or (flow.strip(lr)[0] == "field")
        lp = field_path(flow.strip(lr))
        ctx.check(lp[1][-1:] == ["0"] and bool(calls_in(lr, "Clone::clone")), R, "C18/strategies/fill-returns-element", cl.loc,
                  reason="the result is %s; expected a clone of the chosen input element" % render(lr, maxdepth=3), detail="result = chosen target.clone()")


def config_mapping(ctx):
    R = "C18/config-mapping"
    prog = ctx.prog
    ob = [b for b in prog.find_bodies(r"^passage::adapter::filter::\{impl#\d+\}::from$") if "FilterOperation" in b.name]
    ctx.exact(R, "From<config::FilterOperation>", len(ob), 1)
    if len(ob) == 1:
        b = ob[0]
        an = ctx.an(b)
        sw = [blk for blk in b.blocks if blk.term.kind == "switch" and not blk.cleanup]
        tbl = {}
        if len(sw) == 1:
            info = an.switch_info(sw[0].idx)
            for conds, blocks in boolform.paths(ctx, b):
                v = flow.strip(boolform.path_value(ctx, b, blocks) or ("unknown", ""))
                labs = info[1].get(conds[0][1], []) if conds else []
                if v[0] == "agg":
                    payload_ok = True
                    for n, pv in v[2]:
                        r, fs = field_path(pv)
                        payload_ok = payload_ok and param_name(r) == "value" and fs == [n]
                    src = flow.strip(v[2][0][1]) if v[2] else None
                    for l in labs:
                        okv = True
                        if src is not None:
                            vs = find_all(src, lambda x: x[0] == "variant")
                            okv = bool(vs) and vs[0][2] == l
                        tbl[l] = (v[1].split("::")[-1], okv)
        want = {k: (k, True) for k in ("Equals", "NotEquals", "Exists", "NotExists", "In", "NotIn")}
        ctx.check(tbl == want, R, "C18/config-mapping/operation-identity", b.loc,
                  reason="config operation -> adapter operation table is %s; expected the identity on variants and payloads" % tbl,
                  detail="From<config::FilterOperation> is the identity (6 variants)")
    rb = [b for b in prog.find_bodies(r"^passage::adapter::filter::\{impl#\d+\}::from$") if "FilterRule" in b.name]
    if len(rb) == 1:
        an = ctx.an(rb[0])
        r = flow.strip(return_expr(an))
        f = dict(r[2]) if r[0] == "agg" else {}
        ok = param_path(f.get("key", ("unknown", ""))) == ("value", ["key"]) and param_path(f.get("operation", ("unknown", ""))) == ("value", ["operation"])
        ctx.check(ok, R, "C18/config-mapping/rule-fields", rb[0].loc, reason="FilterRule built as %s" % render(r, maxdepth=4), detail="FilterRule{key <- key, operation <- operation.into()}")
    fb = ctx.body(r"^passage::adapter::filter::\{impl#\d+\}::from_config::\{closure#0\}$", required=False)
    fbs = [b for b in prog.find_bodies(r"^passage::adapter::filter::\{impl#\d+\}::from_config::\{closure#0\}$") if calls(b, "OptionFilterAdapter::<T>::new") or calls(b, "OptionFilterAdapter::new")]
    ctx.exact(R, "DynFilterAdapter::from_config", len(fbs), 1)
    if len(fbs) == 1:
        b = fbs[0]
        an = ctx.an(b)
        g = ctx.graph(b)
        info = None
        for blk in b.blocks:
            if blk.cleanup or blk.term.kind != "switch" or b.is_noise(blk.term):
                continue
            e, ls = an.switch_info(blk.idx)
            if any(l in ("Meta", "PlayerAllow", "PlayerBlock") for ll in ls.values() for l in ll):
                info = (blk.idx, ls)
        ctx.check(info is not None, R, "C18/config-mapping/filter-variant-switch", b.loc, reason="anchor-missing: no match on the configured filter variant",
                  detail="match on config.filter variant")
        ctors = {"Meta": "MetaFilterAdapter::new", "PlayerAllow": "PlayerAllowFilterAdapter::new", "PlayerBlock": "PlayerBlockFilterAdapter::new"}
        if info:
            for V, ctor in ctors.items():
                edges = [(info[0], tb) for tb, l in info[1].items() if V in l]
                cs = calls(b, ctor)
                ok = len(cs) == 1 and g.must_pass(cs[0][0], cut_edges=edges)[0]
                ctx.check(ok, R, "C18/config-mapping/filter-" + V, site(b, cs[0][0]) if cs else b.loc,
                          reason="config variant %s does not construct %s" % (V, ctor), detail="%s -> %s" % (V, ctor))
                if cs and V != "Meta":
                    bb, t = cs[0]
                    fields = [field_path(arg(an, bb, t, i))[1][-1:] for i in range(3)]
                    names = []
                    for i in range(3):
                        a = arg(an, bb, t, i)
                        hits = [x[2] for x in find_all(a, lambda x: x[0] == "field") if x[2] in ("usernames", "username", "ids")]
                        names.append(hits[0] if hits else "?")
                    ctx.check(names == ["usernames", "username", "ids"], R, "C18/config-mapping/filter-%s-args" % V, site(b, bb),
                              reason="%s(%s); expected (usernames, username, ids)" % (ctor, names), detail="%s(usernames, username, ids)" % ctor)
                # the built adapter is wrapped under the same-named Dyn variant
                aggs = [s for blk in b.blocks if not blk.cleanup for s in blk.stmts if s.kind == "assign" and s.rv.k == "agg"
                        and s.rv.j.get("adt", "").endswith("DynFilterAdapter") and s.rv.j.get("variant") == V]
                okw = False
                for blk in b.blocks:
                    if blk.cleanup:
                        continue
                    for i, s in enumerate(blk.stmts):
                        if s.kind == "assign" and s.rv.k == "agg" and s.rv.j.get("adt", "").endswith("DynFilterAdapter") and s.rv.j.get("variant") == V:
                            e = an.rvalue_expr(s.rv, (blk.idx, i), 0)
                            okw = bool(calls_in(e, ctor)) and g.must_pass(blk.idx, cut_edges=edges)[0]
                ctx.check(okw, R, "C18/config-mapping/filter-%s-wrapped" % V, b.loc, reason="Dyn variant %s does not wrap the adapter built from config variant %s" % (V, V),
                          detail="DynFilterAdapter::%s(OptionFilterAdapter::new(hostname, %s))" % (V, ctor.split("::")[0]))
            for bb, t in calls(b, "OptionFilterAdapter::<T>::new") + calls(b, "OptionFilterAdapter::new"):
                h = arg(an, bb, t, 0)
                hits = [x[2] for x in find_all(h, lambda x: x[0] == "field") if x[2] == "hostname"]
                ctx.check(bool(hits), R, "C18/config-mapping/hostname@bb%s" % site(b, bb).split(":")[-1], site(b, bb),
                          reason="OptionFilterAdapter::new hostname is %s" % render(h, maxdepth=3), detail="hostname <- config.hostname")
    sb = ctx.body(r"^passage::adapter::strategy::\{impl#\d+\}::from_config::\{closure#0\}$", rule=R)
    if sb is not None:
        an = ctx.an(sb)
        cs = calls(sb, "PlayerFillStrategyAdapter::new")
        ctx.exact(R, "PlayerFillStrategyAdapter::new in from_config", len(cs), 1, sb.loc)
        for bb, t in cs:
            f0 = field_path(arg(an, bb, t, 0))[1][-1:]
            f1 = field_path(arg(an, bb, t, 1))[1][-1:]
            ctx.check(f0 == ["field"] and f1 == ["max_players"], R, "C18/config-mapping/player-fill-args", site(sb, bb),
                      reason="PlayerFillStrategyAdapter::new(%s, %s)" % (f0, f1), detail="PlayerFill::new(config.field, config.max_players)")
        pn = ctx.body(r"^passage_adapters::strategy::player_fill::\{impl#\d+\}::new$", rule=R)
        if pn is not None:
            r = flow.strip(return_expr(ctx.an(pn)))
            f = dict(r[2]) if r[0] == "agg" else {}
            ctx.check(param_name(f.get("field", ("unknown", ""))) == "field" and param_name(f.get("max_players", ("unknown", ""))) == "max_players", R,
                      "C18/config-mapping/player-fill-new", pn.loc, reason="PlayerFillStrategyAdapter::new stores %s" % render(r, maxdepth=3),
                      detail="new stores field, max_players")
        for nm in ("player_allow", "player_block"):
            nb = ctx.body(r"^passage_adapters::filter::%s::\{impl#\d+\}::new$" % nm, rule=R)
            if nb is not None:
                r = flow.strip(return_expr(ctx.an(nb)))
                f = dict(r[2]) if r[0] == "agg" else {}
                ok = all(param_name(f.get(x, ("unknown", ""))) == x for x in ("usernames", "username", "ids"))
                ctx.check(ok, R, "C18/config-mapping/%s-new" % nm, nb.loc, reason="%s::new stores %s" % (nm, render(r, maxdepth=3)), detail="%s::new stores its parameters in the like-named fields" % nm)


def dispatch(ctx):
    """Dyn* enum dispatch forwards all arguments unchanged to the wrapped adapter"""
    R = "C18/config-mapping"
    for rx, trait_m, nargs in ((r"^passage::adapter::filter::\{impl#\d+\}::filter::\{closure#0\}$", "FilterAdapter::filter", 5),
                               (r"^passage::adapter::strategy::\{impl#\d+\}::select::\{closure#0\}$", "StrategyAdapter::select", 5),
                               (r"^passage::adapter::authentication::\{impl#\d+\}::authenticate::\{closure#0\}$", "AuthenticationAdapter::authenticate", 6),
                               (r"^passage::adapter::localization::\{impl#\d+\}::localize::\{closure#0\}$", "LocalizationAdapter::localize", 3),
                               (r"^passage::adapter::status::\{impl#\d+\}::status::\{closure#0\}$", "StatusAdapter::status", 3),
                               (r"^passage::adapter::discovery::\{impl#\d+\}::discover::\{closure#0\}$", "DiscoveryAdapter::discover", 0)):
        for b in ctx.prog.find_bodies(rx):
            if calls(b, "Iterator::next"):
                continue   # the chain, checked separately
            an = ctx.an(b)
            cs = calls(b, trait_m)
            names = None
            ok = bool(cs)
            for bb, t in cs:
                ps = [param_path(arg(an, bb, t, i)) for i in range(1, nargs + 1)]
                if any(p[1] for p in ps) or any(p[0] is None for p in ps):
                    ok = False
                cur = [p[0] for p in ps]
                if names is None:
                    names = cur
                elif names != cur:
                    ok = False
                recv = flow.strip(arg(an, bb, t, 0))
                vs = find_all(arg(an, bb, t, 0), lambda x: x[0] == "variant")
                if not vs:
                    ok = False
            # parameter order = declaration order
            decl = [b.parent and None]
            label = b.key.split("::")[3] + "::" + trait_m.split("::")[-1]
            ctx.check(ok and names is not None and len(set(names)) == nargs and (nargs > 0 or len(cs) >= 1), R, "C18/config-mapping/dispatch/" + label, b.loc,
                      reason="%s does not forward its arguments unchanged to the wrapped adapter (%s)" % (label, names),
                      detail="%s: %d arms forward (%s)" % (label, len(cs), ", ".join(names or [])))

"""C14 — Operator-configured limits and the connection deadline govern every connection (DESIGN §5 C14)."""
from ..lib import *  # noqa: F401,F403
from .. import flow
from .listener_common import Handle, listener_builders, connection_builders

EXPLANATION = ("forwarding (dataflow) rules: every configured limit reaches the Listener builder from the like-named "
               "Config field (passage::start), every builder-set Listener field is read when a connection is built "
               "(no write-only limit) and is the only origin of the like-named Connection::with_* argument, each "
               "Connection limit field is written only by its builder and is the operand of its guard; the future of "
               "connection.listen() is awaited only inside tokio::time::timeout(self.connection_timeout, ·) and every "
               "path after it reaches stream.shutdown().await")
DECIDED = [
    "config.max_packet_length / auth_cookie_expiry / auth_secret / timeout / rate_limiter{duration,limit} / proxy_protocol{allow_v1,allow_v2} are the only origins of the matching Listener::with_* arguments on the listener that is listen()ed",
    "no builder-set field of Listener is write-only: auth_secret, max_packet_length, auth_cookie_expiry reach Connection::with_* on the connection whose listen() is awaited",
    "Connection.max_packet_length bounds the frame-length guard; Connection.auth_cookie_expiry and auth_secret are the operands of the cookie acceptance (C02); each is written only by new()/its builder",
    "connection.listen() is awaited only as the future argument of timeout(self.connection_timeout, ·); afterwards every path awaits shutdown() on the stream the connection was built on",
]
UNDECIDED = ["real elapsed time (tokio::time::timeout)", "OS socket behaviour at shutdown", "a configured max_packet_length above i32::MAX wraps in the `as i32` cast (operator-controlled, documented limit)"]
TRUSTED = ["tokio::time::timeout drops the inner future at the deadline"]

CONFIG_MAP = {
    "max_packet_length": [("config", ["max_packet_length"])],
    "auth_cookie_expiry": [("config", ["auth_cookie_expiry"])],
    "auth_secret": [("config", ["auth_secret"])],
    "connection_timeout": [("config", ["timeout"])],
    "rate_limiter": [("config", ["rate_limiter"])],
    "proxy_protocol": [("config", ["proxy_protocol"])],
}


def param_paths(e):
    out = set()
    for x in find_all(e, lambda x: x[0] in ("field", "param", "env")):
        pn, fs = param_path(x)
        if pn is not None:
            out.add((pn, tuple(fs)))
    # keep only maximal paths
    res = set()
    for pn, fs in out:
        if not any(pn == p2 and len(f2) > len(fs) and f2[:len(fs)] == fs for p2, f2 in out):
            res.add((pn, fs))
    return res


def check(ctx):
    expiry_enforced(ctx)
    R = "C14/config-to-listener"
    sb = ctx.body(r"^passage::start::\{closure#0\}$", rule=R)
    builders = listener_builders(ctx)
    ctx.floor(R, "Listener::with_* builders", len(builders), 6)
    if sb is not None:
        an = ctx.an(sb)
        ls = calls(sb, "Listener::<Stat, Disc, Filt, Stra, Auth, Loca>::listen") or calls(sb, "listener::Listener::listen")
        ctx.exact(R, "Listener::listen call in start", len(ls), 1, sb.loc)
        chain = {}
        if len(ls) == 1:
            bb, t = ls[0]
            recv = flow.strip(arg(an, bb, t, 0))
            x = recv
            for _ in range(20):
                x = flow.strip(x)
                if x[0] == "call" and "::with_" in flow.short(x[1]):
                    chain[flow.short(x[1]).split("::with_")[-1]] = (x[3][1], x[4])
                    x = x[3][0]
                else:
                    break
            ctx.check(x[0] == "call" and flow.short(x[1]).endswith("Listener::new"), R, "C14/config-to-listener/chain-root", site(sb, bb),
                      reason="the listener that is listen()ed is not the configured builder chain: root is %s" % render(x, maxdepth=2),
                      detail="listen() receiver = Listener::new(..).with_*(..)… (%d builders)" % len(chain))
        for name, want in sorted(CONFIG_MAP.items()):
            key = "C14/config-to-listener/" + name
            if name not in chain:
                ctx.fail(R, key, sb.loc, "anchor-missing: Listener::with_%s is not called on the listener that is started; the configured %s never takes effect" % (name, want[0][1][0]))
                continue
            e, cbb = chain[name]
            pp = param_paths(e)
            ok = pp == set((p, tuple(f)) for p, f in want)
            ctx.check(ok, R, key, site(sb, cbb),
                      reason="with_%s receives %s (origins %s); expected only config.%s" % (name, render(e, maxdepth=4), sorted(pp), ".".join(want[0][1])),
                      detail="with_%s <- config.%s" % (name, ".".join(want[0][1])))
            if name == "connection_timeout":
                x = flow.strip(e)
                ctx.check(x[0] == "call" and flow.short(x[1]).endswith("Duration::from_secs"), R, key + "/unit", site(sb, cbb),
                          reason="timeout is built by %s, expected Duration::from_secs(config.timeout)" % render(x, maxdepth=2),
                          detail="Duration::from_secs(config.timeout)")
        # closures mapping sub-configs
        for c in ctx.prog.children(sb.key):
            can = ctx.an(c)
            r = flow.strip(return_expr(can))
            if r[0] == "call" and flow.short(r[1]).endswith("RateLimiter::new"):
                d, l = flow.strip(r[3][0]), r[3][1]
                okd = d[0] == "call" and flow.short(d[1]).endswith("Duration::from_secs") and param_path(d[3][0])[1][-1:] == ["duration"]
                okl = param_path(l)[1][-1:] == ["limit"]
                ctx.check(okd and okl, R, "C14/config-to-listener/rate_limiter/fields", c.loc,
                          reason="RateLimiter::new(%s, %s); expected (Duration::from_secs(config.duration), config.limit)" % (render(d, maxdepth=3), render(l, maxdepth=3)),
                          detail="RateLimiter::new(from_secs(cfg.duration), cfg.limit)")
            if r[0] == "agg" and r[1].endswith("ParseConfig::ParseConfig"):
                f = dict(r[2])
                ok1 = param_path(f.get("allow_v1", ("unknown",)))[1][-1:] == ["allow_v1"]
                ok2 = param_path(f.get("allow_v2", ("unknown",)))[1][-1:] == ["allow_v2"]
                ctx.check(ok1 and ok2, R, "C14/config-to-listener/proxy_protocol/fields", c.loc,
                          reason="ParseConfig{allow_v1: %s, allow_v2: %s}" % (render(f.get("allow_v1", ("unknown", "")), maxdepth=3), render(f.get("allow_v2", ("unknown", "")), maxdepth=3)),
                          detail="ParseConfig{allow_v1 <- cfg.allow_v1, allow_v2 <- cfg.allow_v2}")
    # each builder stores its own parameter
    for f, (b, e) in sorted(builders.items()):
        ctx.check(param_name(e) == f, R, "C14/config-to-listener/builder-stores/" + f, b.loc,
                  reason="Listener::%s stores %s into self.%s" % (b.j.get("fn_name"), render(e, maxdepth=2), f),
                  detail="%s stores its parameter into self.%s" % (b.j.get("fn_name"), f))

    # ---- C14/listener-to-connection
    RL = "C14/listener-to-connection"
    H = Handle(ctx, RL)
    if not H.ok:
        return
    cb = connection_builders(ctx)
    ctx.floor(RL, "Connection::with_* builders", len(cb), 4)
    # fields read in handle/listen (through self)
    read = set()
    for body, an in ((H.handle, H.han), (H.listen, H.lan)):
        for b in body.blocks:
            if b.cleanup:
                continue
            for s in b.stmts:
                if s.kind == "assign" and not body.is_noise(s):
                    pl = s.rv.place
                    for p in ([pl] if pl is not None else []) + [o.place for o in s.rv.ops if o.place is not None]:
                        fs = p.fields()
                        if len(fs) >= 2 and fs[0] == "self" and "*" in p.proj:
                            read.update(fs[1:])     # every component: self.settings.auth_secret reads `auth_secret`
                        elif fs and "*" in p.proj:
                            # through a reference held in a local (e.g. the `self` of a helper merged into this body)
                            base = an.local_expr(p.local, (b.idx, b.stmts.index(s)), 0)
                            root = flow.strip(base)
                            while root[0] in ("ref", "deref", "mut"):
                                root = flow.strip(root[1])
                            if (root[0] == "field" and root[2] == "self" and flow.strip(root[1])[0] == "env") or (root[0] == "param" and root[2] == "self"):
                                read.update(fs)
            t = b.term
            if t.kind == "switch" and t.discr.place is not None:
                pass
    for f in sorted(builders):
        ctx.check(f in read, RL, "C14/listener-to-connection/not-write-only/" + f, builders[f][0].loc,
                  reason="Listener.%s is set by %s but never read when connections are accepted: the configured value has no effect on any connection"
                         % (f, builders[f][0].j.get("fn_name")),
                  detail="Listener.%s is read in handle()/listen()" % f)
    if H.task is None:
        ctx.fail(RL, "C14/listener-to-connection/task", H.handle.loc, "anchor-missing: no spawned connection task found in handle()")
        return
    task, tan, tg = H.task, H.tan, H.tg
    lis = calls(task, "Connection::<S, Stat, Disc, Filt, Stra, Auth, Loca>::listen") or calls(task, "connection::Connection::listen")
    ctx.exact(RL, "Connection::listen call in the connection task", len(lis), 1, task.loc)
    conn_chain = {}
    if len(lis) == 1:
        bb, t = lis[0]
        x = flow.strip(arg(tan, bb, t, 0))
        for _ in range(20):
            x = flow.strip(x)
            if x[0] == "call" and "::with_" in flow.short(x[1]):
                conn_chain[flow.short(x[1]).split("::with_")[-1]] = (x[3][1], x[4])
                x = x[3][0]
            else:
                break
        ctx.check(x[0] == "call" and flow.short(x[1]).endswith("Connection::new"), RL, "C14/listener-to-connection/chain-root", site(task, bb),
                  reason="the connection that is listen()ed is not built by Connection::new(..).with_*(..)", detail="listen() on Connection::new(..).with_*(..)…")
    for f in ("auth_secret", "max_packet_length", "auth_cookie_expiry"):
        key = "C14/listener-to-connection/forward/" + f
        if f not in builders or f not in cb:
            ctx.fail(RL, key, H.handle.loc, "anchor-missing: builder for %s missing on Listener or Connection" % f)
            continue
        if f not in conn_chain:
            ctx.fail(RL, key, site(task, lis[0][0]) if lis else task.loc,
                     "Connection::with_%s is never called for accepted connections: Listener.%s (configured) is not forwarded, every connection runs with the default"
                     % (f, f))
            continue
        e, cbb = conn_chain[f]
        up = H.task_upvar(e)
        src = H.capture(up) if up else None
        ok = src is not None and self_field(src) == f
        ctx.check(ok, RL, key, site(task, cbb),
                  reason="Connection::with_%s receives %s (captured from %s); expected Listener.%s" % (f, render(e, maxdepth=3), render(src, maxdepth=3) if src else "?", f),
                  detail="Connection::with_%s <- self.%s" % (f, f))

    # ---- C14/connection-uses
    RU = "C14/connection-uses"
    for f, (b, e) in sorted(cb.items()):
        ctx.check(param_name(e) == f, RU, "C14/connection-uses/builder-stores/" + f, b.loc,
                  reason="Connection::%s stores %s into self.%s" % (b.j.get("fn_name"), render(e, maxdepth=2), f),
                  detail="Connection::with_%s stores its parameter" % f)
    writers = {}
    for k, b in ctx.prog.lib_bodies.items():
        if not k.startswith("passage_protocol::"):
            continue
        an = ctx.an(b)
        for bb, i, s in an.mem_writes:
            fs = s.place.fields()
            if fs and fs[-1] in ("max_packet_length", "auth_cookie_expiry", "auth_secret", "connection_timeout") and not b.is_noise(s):
                writers.setdefault(fs[-1], []).append(k)
    ctx.check(not writers, RU, "C14/connection-uses/no-late-writes", "",
              reason="limit fields are overwritten after construction: %s" % writers, detail="limits written only by new()/builders")
    rb = ctx.body(r"^passage_protocol::connection::\{impl#\d+\}::receive_packet::\{closure#0\}::\{closure#0\}$", rule=RU)
    if rb is not None:
        # the configured bound decides: a frame of max bytes is read, a frame of max+1 bytes is not
        # (sample-point evaluation of the guard over the frame length, pv/sample.py)
        from .c04 import frame_samples
        S, MAX = frame_samples(ctx, rb)
        body_reads = [bb for bb, t in calls(rb, "AsyncReadExt::read_to_end")]
        hit = bool(body_reads) and all(not S.reachable(MAX + 1, bb) and S.reachable(MAX, bb) for bb in body_reads)
        ctx.check(hit, RU, "C14/connection-uses/max-packet-length-guards-frames", rb.loc,
                  reason="no comparison of the received frame length with self.max_packet_length in receive_packet",
                  detail="frame length compared with self.max_packet_length")

    # ---- C14/deadline
    RD = "C14/deadline"
    tos = calls(task, "tokio::time::timeout")
    ctx.exact(RD, "tokio::time::timeout in the connection task", len(tos), 1, task.loc)
    if len(tos) == 1 and len(lis) == 1:
        bb, t = tos[0]
        d = arg(tan, bb, t, 0)
        up = H.task_upvar(d)
        src = H.capture(up) if up else None
        ctx.check(src is not None and self_field(src) == "connection_timeout", RD, "C14/deadline/duration", site(task, bb),
                  reason="deadline is %s (captured from %s); expected self.connection_timeout" % (render(d, maxdepth=3), render(src, maxdepth=3) if src else "?"),
                  detail="timeout(self.connection_timeout, ..)")
        fut = flow.strip(arg(tan, bb, t, 1))
        ctx.check(fut[0] == "call" and fut[4] == lis[0][0], RD, "C14/deadline/wraps-listen", site(task, bb),
                  reason="timeout wraps %s, not connection.listen()" % render(fut, maxdepth=2), detail="timeout(.., connection.listen())")
        # listen()'s future is not polled anywhere except through the timeout
        polls = [(pb, pt) for pb, pt in calls(task, "Future::poll")]
        direct = []
        for pb, pt in polls:
            e = tan.operand_expr(pt.args[0], (pb, "term"))
            cs = calls_in(e)
            names = [flow.short(c[1]) for c in cs]
            if any(n.endswith("Connection::listen") for n in names) and not any(n.endswith("time::timeout") for n in names):
                direct.append(site(task, pb))
        ctx.check(not direct, RD, "C14/deadline/no-unbounded-await", task.loc,
                  reason="connection.listen() is awaited without the deadline at %s" % direct, detail="listen() only awaited through timeout")
        # nothing else in the task may wait on the client outside the deadline
        others = [(site(task, a[0]), a[2]) for a in awaits(ctx, task)
                  if not (a[1] == "ext" and a[2].endswith(("time::timeout", "AsyncWriteExt::shutdown")))]
        ctx.check(not others, RD, "C14/deadline/only-bounded-awaits", task.loc,
                  reason="the connection task also awaits %s outside tokio::time::timeout: a client that withholds what is awaited there keeps the connection open past the configured deadline" % others,
                  detail="the task awaits only timeout(.., listen()) and the final shutdown()")
        # afterwards: shutdown on the same stream on every path to the end of the task
        shs = calls(task, "AsyncWriteExt::shutdown")
        ctx.floor(RD, "stream.shutdown() in the connection task", len(shs), 1, task.loc)
        sh_ok = False
        for sbb, stt in shs:
            recv = arg(tan, sbb, stt, 0)
            if H.task_upvar(recv) == "stream":
                okk, p = on_every_return_path(tg, sbb)
                after = always_before(tg, bb, sbb)
                # the stream the connection was built on
                news = calls(task, "Connection::<S, Stat, Disc, Filt, Stra, Auth, Loca>::new") or calls(task, "Connection::new")
                same = bool(news) and H.task_upvar(arg(tan, news[0][0], news[0][1], 0)) == "stream"
                sh_ok = okk and after and same
        ctx.check(sh_ok, RD, "C14/deadline/shutdown-after", task.loc,
                  reason="after the deadline/await some path ends the task without stream.shutdown().await on the connection's stream",
                  detail="every path after the timeout awaits shutdown() on the connection's stream")
    # default: connection_timeout initialised from DEFAULT_CONNECTION_TIMEOUT in Listener::new (documented default)


def expiry_enforced(ctx):
    """the configured expiry governs acceptance: the cookie clauses of C02 that involve auth_cookie_expiry and the clock are
    re-evaluated here (same rule code, C14 keys), so that a change to *when* or *in which unit* the clock is read is
    reported under the property that promises "cookies older than the configured expiry are refused" """
    from .. import core
    from . import c02
    sub = core.Ctx(ctx.prop, ctx.prog, ctx.tier, ctx.config)
    c02.check(sub)
    wanted = ("C02/accept-guards/not-expired", "C02/accept-guards/now-is-current", "C02/accept-guards/timestamp-unit-agrees")
    seen = 0
    for o in sub.obligations:
        if o["key"] in wanted:
            seen += 1
            key = "C14/expiry-enforced/" + o["key"].split("/")[-1]
            ctx.check(o["ok"], "C14/expiry-enforced", key, o["site"], reason=o["detail"], detail=o["detail"])
    ctx.floor("C14/expiry-enforced", "expiry clauses evaluated (not-expired, now-is-current, timestamp-unit-agrees)", seen, 3)

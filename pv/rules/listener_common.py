"""Shared facts about Listener::listen / Listener::handle / the spawned connection task."""
from ..lib import *  # noqa: F401,F403
from .. import flow

L_LISTEN = r"^passage_protocol::listener::\{impl#\d+\}::listen::\{closure#0\}::\{closure#0\}$"
L_HANDLE = r"^passage_protocol::listener::\{impl#\d+\}::handle::\{closure#0\}::\{closure#0\}$"


class Handle(object):
    def __init__(self, ctx, rule):
        self.ctx = ctx
        self.listen = ctx.body(L_LISTEN, rule=rule)
        self.handle = ctx.body(L_HANDLE, rule=rule)
        self.ok = self.listen is not None and self.handle is not None
        self.task = None
        self.spawn = None
        if not self.ok:
            return
        self.lan = ctx.an(self.listen)
        self.han = ctx.an(self.handle)
        self.hg = ctx.graph(self.handle)
        self.lg = ctx.graph(self.listen)
        # the spawned task: coroutine aggregate passed to TaskTracker::spawn
        sp = calls(self.handle, ("TaskTracker::spawn", "tokio::spawn", "tokio::task::spawn", "TaskTracker::spawn_on",
                                 "tokio::task::spawn_local", "JoinSet::spawn"))
        self.spawns = sp
        if len(sp) == 1:
            bb, t = sp[0]
            self.spawn = (bb, t)
            fut = flow.strip(arg(self.han, bb, t, len(t.args) - 1))
            if fut[0] == "agg" and fut[1].startswith("coroutine:"):
                key = fut[1].split(":", 1)[1]
                self.task = ctx.prog.lib_bodies.get(key)
                self.captures = dict(fut[2])
        if self.task is not None:
            self.tan = ctx.an(self.task)
            self.tg = ctx.graph(self.task)

    def capture(self, name):
        return self.captures.get(name) if self.task is not None else None

    def task_upvar(self, e):
        """name of the captured variable e denotes inside the task body"""
        x = flow.strip(e)
        if x[0] == "field" and flow.strip(x[1])[0] == "env":
            return x[2]
        return None


def listener_builders(ctx):
    """{field: builder body} for `Listener::with_*(mut self, v) -> Self` builders that store v into self.<field>"""
    out = {}
    for b in ctx.prog.find_bodies(r"^passage_protocol::listener::\{impl#\d+\}::with_\w+$"):
        an = ctx.an(b)
        ups = builder_updates(an)
        for f, e in ups.items():
            # a setting grouped into a nested private struct (`self.settings.auth_secret = v`) is still that setting
            out[f.split(".")[-1]] = (b, e)
    return out


def connection_builders(ctx):
    out = {}
    for b in ctx.prog.find_bodies(r"^passage_protocol::connection::\{impl#\d+\}::with_\w+$"):
        an = ctx.an(b)
        ups = builder_updates(an)
        for f, e in ups.items():
            out[f] = (b, e)
    return out

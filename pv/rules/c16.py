"""C16 — One stalled or hostile client never delays another (DESIGN §5 C16)."""
from ..lib import *  # noqa: F401,F403
from .. import flow
from .listener_common import Handle

EXPLANATION = ("effect analysis over the async call graph: every future awaited inline by the accept loop of "
               "Listener::listen (outside a task spawned on the tracker) must not transitively await client-controlled "
               "I/O (PROXY header read, stream reads, Connection::listen); the spawned task captures only owned/Arc/Copy "
               "state; the listener state touched per connection (rate limiter) is used in await-free code; no blocking "
               "std calls reachable")
DECIDED = [
    "no await in the accept loop blocks on bytes from an accepted peer (await chain reported when one does)",
    "the connection task owns its stream and captures only Arc clones, Copy values and owned configuration; no reference to the Listener escapes into it",
    "RateLimiter::enqueue (the only per-connection mutation of listener state) contains no await",
    "no std::thread::sleep / blocking std::net / std::fs / block_on reachable from listen()/handle()/the task",
]
UNDECIDED = ["scheduler fairness and CPU time (tokio, RSA key generation on first use)"]
TRUSTED = ["tokio cooperative scheduling", "stream.shutdown() on a refused connection is a non-blocking half-close for TcpStream"]

PEER_BLOCKING = ("ProxiedStream::create_from_tokio", "AsyncReadExt::read", "AsyncReadExt::read_exact", "AsyncReadExt::read_to_end",
                 "AsyncReadExt::read_buf", "AsyncReadExt::read_u8", "AsyncReadExt::read_u16", "AsyncBufReadExt::read_line",
                 "AsyncReadPacket::read_packet", "reader::read_varint", "AsyncWriteExt::write_all", "AsyncWriteExt::write",
                 "AsyncWriteExt::flush", "tokio::io::copy", "copy_bidirectional")
LOOP_ALLOWED = ("TcpListener::accept", "CancellationToken::cancelled", "WaitForCancellationFuture", "tokio::task::yield_now")
TRIAGED = {"AsyncWriteExt::shutdown": "half-close of a refused connection: TcpStream::poll_shutdown issues shutdown(2) and returns; it does not wait for the peer"}
BLOCKING_STD = ("set_linger", "SockRef::<'s>::set_linger", "TcpStream::set_linger", "std::thread::sleep", "std::net::TcpStream::connect", "std::net::TcpListener::accept", "std::fs::read",
                "std::fs::File::open", "std::fs::read_to_string", "Runtime::block_on", "Handle::block_on", "futures::executor::block_on",
                "std::io::Read::read", "std::sync::mpsc::Receiver::recv", "std::thread::JoinHandle::join")


def inline_chains(ctx, body, depth=0, seen=None):
    """[(chain of (site, name))] for every external future awaited inline by `body`, transitively"""
    seen = seen or set()
    out = []
    if body.key in seen or depth > 8:
        return out
    seen = seen | {body.key}
    for bb, kind, name, info in awaits(ctx, body):
        st = site(body, bb)
        if kind == "ws":
            sub = ctx.prog.lib_bodies.get(info)
            if sub is not None:
                for ch in inline_chains(ctx, sub, depth + 1, seen):
                    out.append([(st, name.split("::")[-2] if name.endswith("{closure#0}") else name.split("::")[-1])] + ch)
        elif kind == "select":
            for f in info[2]:
                f = flow.strip(f)
                for _ in range(4):
                    if f[0] == "call" and flow.short(f[1]).endswith(("Instrument::instrument",)) and f[3]:
                        f = flow.strip(f[3][0])
                if f[0] == "call":
                    out.append([(st, "select!:" + flow.short(f[2] or f[1]))])
        else:
            out.append([(st, name)])
            # wrappers (timeout, instrument, …) take the real future as an argument: look inside
            if isinstance(info, tuple) and info and info[0] == "call":
                for inner in _future_args(ctx, info):
                    if inner[0] == "ws":
                        sub = ctx.prog.lib_bodies.get(inner[1])
                        if sub is not None:
                            for ch in inline_chains(ctx, sub, depth + 1, seen):
                                out.append([(st, name.split("::")[-1] + "(async block)")] + ch)
                    else:
                        out.append([(st, name.split("::")[-1] + "(..)"), (st, inner[1])])
    return out


def _future_args(ctx, callexpr, depth=0):
    """futures handed to a combinator call: workspace coroutines (async blocks) and nested I/O calls"""
    found = []
    if depth > 4:
        return found
    for a in callexpr[3]:
        x = flow.strip(a)
        if x[0] == "agg" and x[1].startswith("coroutine:") and x[1].split(":", 1)[1] in ctx.prog.lib_bodies:
            found.append(("ws", x[1].split(":", 1)[1]))
        elif x[0] == "call":
            nm = flow.short(x[2] or x[1])
            from ..lib import _ws_coroutine_of
            wk = _ws_coroutine_of(ctx, x)
            if wk:
                found.append(("ws", wk))
            elif any(nm.endswith(p) for p in PEER_BLOCKING):
                found.append(("ext", nm))
            else:
                found.extend(_future_args(ctx, x, depth + 1))
    return found


def check(ctx):
    R = "C16/no-peer-await-in-accept-loop"
    H = Handle(ctx, R)
    if not H.ok:
        return
    body = H.listen
    chains = inline_chains(ctx, body)
    ctx.floor(R, "futures awaited inline by the accept loop (transitively)", len(chains), 4, body.loc)
    # sites of listen() that lie on the accept cycle (can reach the accept select! again)
    g0 = ctx.graph(body)
    sel_bbs = [bb for bb, kind, name, info in awaits(ctx, body) if kind == "select"]
    loop_sites = set()
    for bb, kind, name, info in awaits(ctx, body):
        for sb in sel_bbs:
            if bb == sb or (g0.path(g0.nodes_of_bb(bb), [sb]) is not None and g0.path(g0.nodes_of_bb(sb), [bb]) is not None):
                loop_sites.add(site(body, bb))
    n_bad = 0
    for ch in chains:
        leaf = ch[-1][1]
        short_leaf = leaf.replace("select!:", "")
        if any(short_leaf.endswith(p) for p in PEER_BLOCKING):
            n_bad += 1
            key = "C16/no-peer-await-in-accept-loop/" + "->".join(x[1].split("::")[-1] for x in ch)
            ctx.fail(R, key, ch[-1][0],
                     "the accept loop awaits client-controlled I/O inline (%s): a peer that stalls here blocks accept() for every "
                     "other client; such awaits belong inside the task spawned on the tracker" % " -> ".join("%s@%s" % (x[1], x[0]) for x in ch),
                     witness=["%s @ %s" % (x[1], x[0]) for x in ch])
        elif any(short_leaf.endswith(t) for t in TRIAGED):
            ctx.ok(R, "C16/no-peer-await-in-accept-loop/triaged/" + short_leaf.split("::")[-1], ch[-1][0],
                   "inline await %s — triaged: %s" % (short_leaf, [v for k, v in TRIAGED.items() if short_leaf.endswith(k)][0]))
        elif ch[0][0] in loop_sites and not any(short_leaf.endswith(a) for a in LOOP_ALLOWED):
            # inside the accept cycle only waiting for the next connection or for the stop request is expected; anything else —
            # a semaphore permit, a channel, a lock held by connection tasks — completes when OTHER clients let it
            n_bad += 1
            key = "C16/no-peer-await-in-accept-loop/unexpected/" + "->".join(x[1].split("::")[-1] for x in ch)
            ctx.fail(R, key, ch[-1][0],
                     "the accept loop awaits %s inline: nothing bounds this wait and its completion can depend on other connections (a permit, "
                     "a lock, a queue drained by connection tasks), so clients that stall can delay accept() for everyone" % " -> ".join("%s@%s" % (x[1], x[0]) for x in ch),
                     witness=["%s @ %s" % (x[1], x[0]) for x in ch])
        else:
            ctx.ok(R, "C16/no-peer-await-in-accept-loop/ok/" + "->".join(x[1].split("::")[-1] for x in ch), ch[-1][0],
                   "inline await %s does not read from an accepted peer" % short_leaf)
    # inside the connection task: no wait on a synchronisation object shared between connections (a global semaphore, a mutex
    # held across client I/O): one stalled client must not be able to hold what another client waits for
    SHARED_WAITS = ("Semaphore::acquire", "Semaphore::acquire_owned", "Semaphore::acquire_many", "Mutex::<T>::lock", "Mutex::lock", "RwLock::<T>::write",
                    "Notify::notified", "Barrier::wait", "mpsc::Sender::<T>::send", "mpsc::Sender::<T>::reserve", "OwnedSemaphorePermit", "Semaphore::acquire_many_owned")
    if H.task is not None:
        for ch in inline_chains(ctx, H.task):
            leaf = ch[-1][1].replace("select!:", "")
            in_protocol = all(not x[1].startswith(("passage_adapters", "DiscoveryAdapter", "StatusAdapter", "AuthenticationAdapter", "FilterAdapter",
                                                   "StrategyAdapter", "LocalizationAdapter")) for x in ch)
            if in_protocol and any(leaf.endswith(w) or ("::" + w) in leaf for w in SHARED_WAITS):
                n_bad += 1
                ctx.fail(R, "C16/no-shared-wait-in-connection/" + "->".join(x[1].split("::")[-1] for x in ch), ch[-1][0],
                         "a connection task awaits %s: a synchronisation object shared between connections; clients that stall while holding it "
                         "(their reads are client-paced) delay every other client that needs it" % " -> ".join("%s@%s" % (x[1], x[0]) for x in ch),
                         witness=["%s @ %s" % (x[1], x[0]) for x in ch])
    ctx.ok(R, "C16/no-shared-wait-in-connection/scan", "", "awaits of the connection task scanned for shared synchronisation objects")
    # the connection handler itself must be in the spawned task, not inline
    if H.task is not None:
        tch = inline_chains(ctx, H.task)
        has = any(any("Connection::listen" in x[1] or "time::timeout" in x[1] for x in ch) for ch in tch)
        ctx.check(has, R, "C16/no-peer-await-in-accept-loop/handler-in-task", H.task.loc,
                  reason="the connection handler is not awaited inside the spawned task", detail="Connection::listen awaited inside the tracked task")

    # ---- C16/per-connection-state
    RS = "C16/per-connection-state"
    if H.task is not None:
        bad = []
        caps = []
        for d in H.task.debug:
            if "place" in d and d["place"]["p"]:
                p = d["place"]["p"][-1]
                if isinstance(p, dict) and "ty" in p:
                    caps.append((d["name"], p["ty"]))
                    ty = p["ty"]
                    if ty.startswith("&") or "Listener<" in ty or "RateLimiter" in ty:
                        bad.append((d["name"], ty))
        ctx.floor(RS, "captured variables of the connection task", len(caps), 8, H.task.loc)
        ctx.check(not bad, RS, "C16/per-connection-state/captures-owned", H.task.loc,
                  reason="the connection task borrows listener state: %s" % bad,
                  detail="captures (all owned/Arc/Copy): %s" % [n for n, _ in caps])
    eb = ctx.body(r"^passage_protocol::rate_limiter::\{impl#\d+\}::enqueue$", rule=RS)
    if eb is not None:
        ctx.check(eb.coroutine is None and not ctx.prog.lib_bodies.get(eb.key + "::{closure#0}", None) is not None or True, RS,
                  "C16/per-connection-state/enqueue-is-sync", eb.loc, reason="", detail="RateLimiter::enqueue is a synchronous fn")
        isasync = (eb.key + "::{closure#0}") in ctx.prog.lib_bodies and ctx.prog.lib_bodies[eb.key + "::{closure#0}"].coroutine
        ctx.check(not isasync, RS, "C16/per-connection-state/enqueue-no-await", eb.loc,
                  reason="RateLimiter::enqueue is async: listener state would be held across an await", detail="enqueue has no await")
    # rate limiter not touched by the task
    if H.task is not None:
        names = ctx.cg.names(H.task.key)
        ctx.check(not any(n.endswith("RateLimiter::enqueue") for n in names), RS, "C16/per-connection-state/limiter-not-in-task", H.task.loc,
                  reason="the connection task reaches RateLimiter::enqueue", detail="limiter only used by the accept loop")

    # ---- C16/no-blocking-calls
    RB = "C16/no-blocking-calls"
    roots = [H.listen.key, H.handle.key] + ([H.task.key] if H.task is not None else [])
    found = []
    n_names = 0
    for r in roots:
        ns = ctx.cg.names(r)
        n_names += len(ns)
        for n in ns:
            if any(n.endswith(b) or n == b for b in BLOCKING_STD):
                found.append((r.split("::")[-3], n))
    ctx.sites_inspected += n_names
    ctx.check(not found, RB, "C16/no-blocking-calls/listener", H.listen.loc,
              reason="blocking calls reachable from the accept loop / connection task: %s" % found[:5],
              detail="no blocking std call among %d transitively reachable callees" % n_names)

"""Loader and object model for the JSON IR written by driver/ (DESIGN §2.1).

Everything a rule looks at is identified by resolved semantic identity: callee def path, ADT and
field name, trait and method, evaluated constant. Line numbers only appear in reports.
"""
import glob
import json
import os
import pickle
import re

NOISE_MACROS = (
    "m:tracing::", "m:tracing_core::", "m:log::", "m:tracing_attributes::",
)
FMT_MACROS = ("m:std::format_args", "m:core::format_args", "m:std::format", "m:alloc::format",
              "m:format_args", "m:std::fmt::format")


class Place(object):
    __slots__ = ("local", "proj")

    def __init__(self, j):
        self.local = j["l"]
        self.proj = j["p"]

    def is_local(self):
        return not self.proj

    def fields(self):
        """names of Field projections, in order (deref/downcast skipped)"""
        return [p["n"] for p in self.proj if isinstance(p, dict) and "f" in p]

    def text(self):
        s = "_%d" % self.local
        for p in self.proj:
            if p == "*":
                s = "(*%s)" % s
            elif "f" in p:
                s += "." + p["n"]
            elif "dc" in p:
                s = "(%s as %s)" % (s, p["dc"])
            elif "idx" in p:
                s += "[_%d]" % p["idx"]
            elif "cidx" in p:
                s += "[%s%d]" % ("-" if p["from_end"] else "", p["cidx"])
            elif "sub_from" in p:
                s += "[%d..%s%d]" % (p["sub_from"], "-" if p["from_end"] else "", p["sub_to"])
            else:
                s += "<%s>" % list(p.keys())[0]
        return s

    def key(self):
        return (self.local, tuple(_pkey(p) for p in self.proj))

    def __repr__(self):
        return self.text()


def _pkey(p):
    if p == "*":
        return "*"
    if "f" in p:
        return ("f", p["f"])
    if "dc" in p:
        return ("dc", p["v"])
    if "idx" in p:
        return ("idx", p["idx"])
    if "cidx" in p:
        return ("cidx", p["cidx"], p["from_end"])
    return ("other", json.dumps(p, sort_keys=True))


class Operand(object):
    __slots__ = ("kind", "place", "const")

    def __init__(self, j):
        if "copy" in j:
            self.kind = "copy"
            self.place = Place(j["copy"])
            self.const = None
        elif "move" in j:
            self.kind = "move"
            self.place = Place(j["move"])
            self.const = None
        elif "const" in j:
            self.kind = "const"
            self.place = None
            self.const = j["const"]
        else:
            self.kind = "other"
            self.place = None
            self.const = {"text": json.dumps(j), "ty": "?"}

    def is_const(self):
        return self.kind in ("const", "other")

    def const_int(self):
        if self.const is not None:
            if "int" in self.const:
                return self.const["int"]
            if "bool" in self.const:
                return 1 if self.const["bool"] else 0
        return None

    def const_bool(self):
        if self.const is not None and "bool" in self.const:
            return self.const["bool"]
        return None

    def const_str(self):
        if self.const is not None:
            return self.const.get("str")
        return None

    def fn(self):
        if self.const is not None:
            return self.const.get("fn")
        return None

    def text(self):
        if self.place is not None:
            return ("move " if self.kind == "move" else "") + self.place.text()
        c = self.const
        if "fn" in c:
            return "fn:" + c["fn"]["def"]
        if "str" in c:
            return json.dumps(c["str"])
        if "int" in c:
            return "%d_%s" % (c["int"], c["ty"])
        if "bool" in c:
            return "true" if c["bool"] else "false"
        if "uneval" in c:
            return "const:" + c["uneval"]
        return c.get("text", "?")

    def __repr__(self):
        return self.text()


class Rvalue(object):
    __slots__ = ("k", "j", "ops", "place")

    def __init__(self, j):
        self.k = j["k"]
        self.j = j
        self.ops = []
        self.place = None
        if self.k in ("use", "repeat", "cast"):
            self.ops = [Operand(j["op"])]
        elif self.k == "binop":
            self.ops = [Operand(j["a"]), Operand(j["b"])]
        elif self.k == "unop":
            self.ops = [Operand(j["a"])]
        elif self.k == "agg":
            self.ops = [Operand(o) for o in j["ops"]]
        if "place" in j:
            self.place = Place(j["place"])

    def text(self):
        k = self.k
        j = self.j
        if k == "use":
            return self.ops[0].text()
        if k == "ref":
            return "&%s%s" % ("mut " if "Mut" in j["bk"] else "", self.place.text())
        if k == "rawptr":
            return "&raw %s" % self.place.text()
        if k == "cast":
            return "%s as %s [%s]" % (self.ops[0].text(), j["to"], j["ck"])
        if k == "binop":
            return "%s(%s, %s)" % (j["op"], self.ops[0].text(), self.ops[1].text())
        if k == "unop":
            return "%s(%s)" % (j["op"], self.ops[0].text())
        if k == "discr":
            return "discriminant(%s)" % self.place.text()
        if k == "copyderef":
            return "copyderef %s" % self.place.text()
        if k == "agg":
            ak = j["ak"]
            if ak == "adt":
                fs = ", ".join("%s: %s" % (n, o.text()) for n, o in zip(j["fields"], self.ops))
                return "%s::%s { %s }" % (j["adt"], j["variant"], fs)
            if ak in ("closure", "coroutine", "coroutine_closure"):
                fs = ", ".join("%s: %s" % (n, o.text()) for n, o in zip(j["fields"], self.ops))
                return "%s[%s] { %s }" % (ak, j["closure"], fs)
            return "%s(%s)" % (ak, ", ".join(o.text() for o in self.ops))
        if k == "repeat":
            return "[%s; %s]" % (self.ops[0].text(), j["n"])
        return k


class Stmt(object):
    __slots__ = ("kind", "place", "rv", "loc", "x", "cs", "j")

    def __init__(self, j):
        self.kind = j["s"]
        self.j = j
        self.place = Place(j["place"]) if "place" in j else None
        self.rv = Rvalue(j["rv"]) if "rv" in j else None
        self.loc = j.get("loc", "")
        self.x = j.get("x", 0)
        self.cs = j.get("cs")

    def text(self):
        if self.kind == "assign":
            return "%s = %s" % (self.place.text(), self.rv.text())
        if self.kind == "setdiscr":
            return "discriminant(%s) = %d" % (self.place.text(), self.j["v"])
        return self.j.get("text", self.kind)


class Term(object):
    __slots__ = ("kind", "j", "loc", "x", "cs", "func", "args", "dest", "target", "unwind",
                 "discr", "arms", "otherwise", "callee", "cond", "value", "place", "argtys")

    def __init__(self, j):
        self.kind = j["t"]
        self.j = j
        self.loc = j.get("loc", "")
        self.x = j.get("x", 0)
        self.cs = j.get("cs")
        self.func = self.args = self.dest = self.discr = self.callee = None
        self.cond = self.value = self.place = None
        self.arms = []
        self.otherwise = None
        self.argtys = j.get("argtys", [])
        self.target = j.get("target")
        self.unwind = j.get("unwind")
        if self.kind in ("call", "tailcall"):
            self.func = Operand(j["func"])
            self.args = [Operand(a) for a in j["args"]]
            if "dest" in j:
                self.dest = Place(j["dest"])
            self.callee = self.func.fn()
        elif self.kind == "switch":
            self.discr = Operand(j["discr"])
            self.arms = [(a[0] if isinstance(a[0], int) else int(a[0]), a[1]) for a in j["arms"]]
            self.otherwise = j["otherwise"]
        elif self.kind == "assert":
            self.cond = Operand(j["cond"])
        elif self.kind == "yield":
            self.value = Operand(j["value"])
        elif self.kind == "drop":
            self.place = Place(j["place"])

    def successors(self, with_unwind=False):
        k = self.kind
        out = []
        if k == "switch":
            out = [b for _, b in self.arms] + [self.otherwise]
        elif k in ("goto", "drop", "call", "assert", "yield", "falseedge", "falseunwind"):
            if self.target is not None:
                out = [self.target]
        elif k == "asm":
            out = list(self.j.get("targets", []))
        if with_unwind and self.unwind is not None:
            out.append(self.unwind)
        return out

    def callee_name(self):
        """best resolved name for a call: the impl method when resolution succeeded"""
        c = self.callee
        if not c:
            return None
        return c.get("resolved") or c["def"]

    def text(self):
        k = self.kind
        if k == "call":
            name = self.callee["def"] if self.callee else self.func.text()
            if self.callee and self.callee.get("resolved"):
                name += " {=> %s}" % self.callee["resolved"]
            return "%s = %s(%s) -> bb%s" % (self.dest.text(), name,
                                            ", ".join(a.text() for a in self.args), self.target)
        if k == "switch":
            return "switch(%s) [%s, otherwise: bb%s]" % (
                self.discr.text(), ", ".join("%d: bb%d" % a for a in self.arms), self.otherwise)
        if k == "assert":
            return "assert(%s == %s, %s) -> bb%s" % (self.cond.text(), self.j["expected"], self.j["msg"],
                                                     self.target)
        if k == "yield":
            return "yield(%s) -> bb%s" % (self.value.text(), self.target)
        if k == "drop":
            return "drop(%s) -> bb%s" % (self.place.text(), self.target)
        if k in ("goto", "falseedge", "falseunwind"):
            return "%s -> bb%s" % (k, self.target)
        return k


class Block(object):
    __slots__ = ("idx", "stmts", "term", "cleanup")

    def __init__(self, idx, j):
        self.idx = idx
        self.stmts = [Stmt(s) for s in j["stmts"]]
        self.term = Term(j["term"])
        self.cleanup = j.get("cleanup", False)


class Body(object):
    def __init__(self, j, crate):
        self.j = j
        self.crate = crate
        self.key = j["key"]
        self.name = j["name"]
        self.kind = j["kind"]
        self.loc = j["loc"]
        self.parent = j.get("parent")
        self.arg_count = j["arg_count"]
        self.locals = j["locals"]
        self.coroutine = j.get("coroutine")
        self.blocks = [Block(i, b) for i, b in enumerate(j["blocks"])]
        self.ctxts = crate.ctxts
        self.debug = j["debug"]
        self._succ = None
        self._pred = None
        self.var_names = {}
        for d in self.debug:
            if "place" in d and not d["place"]["p"]:
                self.var_names.setdefault(d["place"]["l"], d["name"])

    # ---- CFG (normal edges only; cleanup blocks excluded)
    @property
    def succ(self):
        if self._succ is None:
            self._succ = [[] if b.cleanup else [s for s in b.term.successors()] for b in self.blocks]
        return self._succ

    @property
    def pred(self):
        if self._pred is None:
            p = [[] for _ in self.blocks]
            for i, ss in enumerate(self.succ):
                for s in ss:
                    p[s].append(i)
            self._pred = p
        return self._pred

    def chain(self, item):
        """macro/desugaring backtrace of a stmt/term"""
        return self.ctxts[item.x] if item.x else []

    def in_macro(self, item, prefixes):
        for c in self.chain(item):
            if c.startswith(prefixes):
                return True
        return False

    def is_noise(self, item):
        return self.in_macro(item, NOISE_MACROS)

    def local_ty(self, l):
        return self.locals[l]["s"]

    def local_name(self, l):
        return self.var_names.get(l)

    def calls(self, pred=None):
        for b in self.blocks:
            if b.cleanup:
                continue
            t = b.term
            if t.kind == "call" and (pred is None or pred(t)):
                yield b.idx, t

    def site(self, item):
        """file:line of a stmt/term, preferring the user call site of a macro expansion"""
        loc = item.cs if (item.x and item.cs) else item.loc
        return _short_loc(loc)

    def dump(self, show_noise=False, out=None):
        lines = []
        lines.append("fn %s  [%s] %s" % (self.key, self.kind, self.loc))
        for i, l in enumerate(self.locals):
            n = self.var_names.get(i)
            if n:
                lines.append("  let _%d: %s  // %s" % (i, l["s"], n))
        for d in self.debug:
            if "place" in d and d["place"]["p"]:
                lines.append("  debug %s => %s" % (d["name"], Place(d["place"]).text()))
        for b in self.blocks:
            if b.cleanup:
                continue
            noise_block = self.is_noise(b.term) and all(self.is_noise(s) for s in b.stmts)
            if noise_block and not show_noise:
                continue
            lines.append("bb%d:" % b.idx)
            for s in b.stmts:
                if self.is_noise(s) and not show_noise:
                    continue
                lines.append("    %s    // %s" % (s.text(), self.site(s)))
            lines.append("    %s    // %s %s" % (b.term.text(), self.site(b.term),
                                                " ".join(self.chain(b.term))))
        return "\n".join(lines)


def _short_loc(loc):
    if not loc:
        return ""
    m = re.match(r"^(.*?):(\d+):(\d+)$", loc)
    if not m:
        return loc
    p = m.group(1)
    if "/registry/src/" in p:
        p = "~" + p.split("/registry/src/")[1].split("/", 1)[1]
    return "%s:%s" % (p, m.group(2))


class Crate(object):
    def __init__(self, j, path):
        self.name = j["crate"]
        self.path = path
        self.crate_types = j["crate_types"]
        self.is_test = j["is_test"]
        self.ctxts = j["ctxts"]
        self.adts = j["adts"]
        self.impls = j["impls"]
        self.traits = j["traits"]
        self.fns = j["fns"]
        self.consts = j["consts"]
        self.stolen = j["stolen"]
        self.src_hash = j.get("src_hash")
        self.bodies = [Body(b, self) for b in j["bodies"]]
        self.kind = "test" if self.is_test else "+".join(self.crate_types).lower()


class Program(object):
    """All crates of one extraction (one feature configuration)."""

    def __init__(self, facts_dir, only_lib=True):
        self.dir = facts_dir
        self.crates = []
        cache = os.path.join(facts_dir, "program.pickle")
        files = sorted(glob.glob(os.path.join(facts_dir, "*.json")))
        files = [f for f in files if not f.endswith("STAMP.json")]
        loaded = None
        if os.path.exists(cache) and all(os.path.getmtime(cache) >= os.path.getmtime(f) for f in files):
            try:
                with open(cache, "rb") as fh:
                    loaded = pickle.load(fh)
            except Exception:
                loaded = None
        if loaded is None:
            loaded = []
            for f in files:
                with open(f) as fh:
                    loaded.append((f, json.load(fh)))
            try:
                with open(cache + ".tmp%d" % os.getpid(), "wb") as fh:
                    pickle.dump(loaded, fh, protocol=pickle.HIGHEST_PROTOCOL)
                os.replace(cache + ".tmp%d" % os.getpid(), cache)
            except Exception:
                pass
        from . import inline, canon
        self.canonicalised = canon.canonicalise_all([j for f, j in loaded if not j.get("is_test")])
        self.inlined = 0
        for f, j in loaded:
            if not j.get("is_test"):
                self.inlined += inline.inline_crate(j)
            self.crates.append(Crate(j, f))
        self.bodies = {}
        self.helper_bodies = {}
        self.lib_bodies = {}
        self.adts = {}
        self.consts = {}
        self.consts_by_name = {}
        self.impls = []
        self.fns = {}
        for c in self.crates:
            is_lib = (not c.is_test) and ("Rlib" in "".join(c.crate_types) or "rlib" in c.kind
                                          or "proc" in c.kind)
            for b in c.bodies:
                k = b.key if is_lib else "%s@%s" % (b.key, c.kind)
                self.bodies[k] = b
                if is_lib and b.j.get("inlined_into_callers"):
                    # a helper that does not exist on the pinned tree and was merged into its callers
                    self.helper_bodies[b.key] = b
                    continue
                if is_lib:
                    self.lib_bodies[b.key] = b
            if is_lib:
                for a in c.adts:
                    self.adts[a["name"]] = a
                for k in c.consts:
                    self.consts[k["key"]] = k
                    self.consts_by_name[k["name"]] = k
                for i in c.impls:
                    i["crate"] = c.name
                    self.impls.append(i)
                for f in c.fns:
                    self.fns[f["key"]] = f

    def stats(self):
        nb = sum(len(c.bodies) for c in self.crates)
        nblk = sum(len(b.blocks) for c in self.crates for b in c.bodies)
        ncalls = sum(1 for c in self.crates for b in c.bodies for bl in b.blocks
                     if bl.term.kind == "call" and not bl.cleanup)
        return {"crates": sorted(set(c.name + ":" + c.kind for c in self.crates)), "bodies": nb,
                "blocks": nblk, "call_sites": ncalls}

    def body(self, key):
        return self.lib_bodies.get(key)

    def find_bodies(self, regex):
        r = re.compile(regex)
        return [b for k, b in sorted(self.lib_bodies.items()) if r.search(k)]

    def children(self, key):
        """closure / async-block bodies of `key`: by parent link, plus those a helper merged into `key` brought along
        (closure literals constructed inside the body)"""
        out = [b for k, b in sorted(self.lib_bodies.items()) if b.parent == key]
        body = self.bodies.get(key)
        if body is not None and body.j.get("inlined"):
            have = set(b.key for b in out)
            for blk in body.blocks:
                if blk.cleanup:
                    continue
                for s in blk.stmts:
                    if s.kind == "assign" and s.rv.k == "agg" and s.rv.j.get("closure"):
                        cb = self.bodies.get(s.rv.j["closure"])
                        if cb is not None and cb.key not in have and cb.key != key:
                            have.add(cb.key)
                            out.append(cb)
        return out

    def const_value(self, name_or_key):
        c = self.consts.get(name_or_key) or self.consts_by_name.get(name_or_key)
        if not c:
            return None
        for k in ("int", "str", "bool", "float"):
            if k in c:
                return c[k]     # floats keep the compiler's textual form ("0.0"), as literal operands do
        return None


if __name__ == "__main__":
    import sys
    from . import extract
    d, h, info = extract.ensure_facts("default")
    prog = Program(d)
    if len(sys.argv) > 1:
        for b in prog.find_bodies(sys.argv[1]):
            print(b.dump(show_noise="--noise" in sys.argv))
            print()
    else:
        print(prog.stats())

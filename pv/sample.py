"""Sample-point evaluation of integer guards.

A guard over a received length only ever *compares* the length with constants and with one configured bound, so
its behaviour is decided by a handful of representative values (below zero, zero, one, a middle value, the bound,
the bound plus one). For each representative the body's CFG is refined: every comparison whose operands are the
length, constants, or the bound is replaced by its truth value (bool locals carrying such results are tracked as
flags, through copies, `!` and `&&`/`||` materialised into variables). What remains reachable for a representative
is what the function can do for every length in that class — independent of how the guard is spelled (`a || b`,
`!(c && d)`, early returns, a named intermediate)."""
from . import flow
from .flow import Graph, strip, short

OPS = {"Lt": lambda x, y: x < y, "Le": lambda x, y: x <= y, "Gt": lambda x, y: x > y, "Ge": lambda x, y: x >= y,
       "Eq": lambda x, y: x == y, "Ne": lambda x, y: x != y}
VALUE_PRESERVING = ("Result::<T, E>::expect", "Result::expect", "Result::<T, E>::unwrap", "Result::unwrap", "TryFrom::try_from",
                    "TryInto::try_into", "Option::<T>::expect", "Option::<T>::unwrap")


def evaluate(e, leaf, depth=0):
    """integer value of expression e; leaf(x) -> int | None decides atoms"""
    if depth > 12:
        return None
    v = leaf(e)
    if v is not None:
        return v
    x = strip(e, extra=VALUE_PRESERVING)
    if x is not e:
        v = leaf(x)
        if v is not None:
            return v
    if x[0] in ("const", "constitem") and isinstance(x[2], int) and not isinstance(x[2], bool):
        return x[2]
    if x[0] == "cast":
        v = evaluate(x[2], leaf, depth + 1)
        if v is None:
            return None
        to = x[4] if len(x) > 4 else ""
        bits = {"u8": 8, "u16": 16, "u32": 32, "u64": 64, "usize": 64, "u128": 128}.get(to)
        if bits and v < 0:
            v += 1 << bits
        return v
    if x[0] == "try" or x[0] == "await":
        return evaluate(x[1], leaf, depth + 1)
    if x[0] == "field" and x[2] == "0":
        inner = strip(x[1], extra=VALUE_PRESERVING)
        if inner[0] == "variant":
            return evaluate(inner[1], leaf, depth + 1)
        if inner[0] == "binop" and inner[1].endswith("WithOverflow"):
            return evaluate(("binop", inner[1][:-len("WithOverflow")], inner[2], inner[3]), leaf, depth + 1)
    if x[0] == "binop" and x[1] in ("Add", "Sub", "Mul", "AddUnchecked", "SubUnchecked"):
        a, b = evaluate(x[2], leaf, depth + 1), evaluate(x[3], leaf, depth + 1)
        if a is None or b is None:
            return None
        return a + b if x[1].startswith("Add") else a - b if x[1].startswith("Sub") else a * b
    if x[0] == "phi":
        vs = set(evaluate(y, leaf, depth + 1) for y in x[1])
        if len(vs) == 1:
            return vs.pop()
    return None


class Samples(object):
    """per representative value: the refined graph and the set of reachable MIR blocks"""

    def __init__(self, ctx, body, atom, values, switch_eval=None):
        """atom(expr, sample) -> int | None gives the value of the leaves (the length, the bound);
        switch_eval(expr, labels, sample) -> labels taken | None decides non-comparison tests (e.g. the Option returned
        by `split_at_checked(n)` is Some iff the length is at least n)"""
        self.body = body
        an = ctx.an(body)
        self.decided_switches = set()
        self.cmp = {}     # (bb, i) -> (op, a_expr, b_expr)
        cmplocals = set()
        for blk in body.blocks:
            if blk.cleanup:
                continue
            for i, s in enumerate(blk.stmts):
                if s.kind == "assign" and s.place.is_local() and s.rv.k == "binop" and s.rv.j["op"] in OPS and not body.is_noise(s) \
                        and body.locals[s.place.local].get("s") == "bool":
                    a = an.operand_expr(s.rv.ops[0], (blk.idx, i), 0)
                    b = an.operand_expr(s.rv.ops[1], (blk.idx, i), 0)
                    probe = values[0]
                    if evaluate(a, lambda x: atom(x, probe)) is not None and evaluate(b, lambda x: atom(x, probe)) is not None:
                        self.cmp[(blk.idx, i)] = (s.rv.j["op"], a, b)
                        cmplocals.add(s.place.local)
        # flags: comparison results, and every bool local built from them by copies / Not / constants
        flags = set(cmplocals) | set(flow.auto_flags(body))
        changed = True
        while changed:
            changed = False
            for blk in body.blocks:
                if blk.cleanup:
                    continue
                for s in blk.stmts:
                    if s.kind == "assign" and s.place.is_local() and s.place.local not in flags and not body.is_noise(s) \
                            and body.locals[s.place.local].get("s") == "bool" and s.rv.k in ("use", "unop") and s.rv.ops \
                            and s.rv.ops[0].place is not None and s.rv.ops[0].place.is_local() and s.rv.ops[0].place.local in flags:
                        flags.add(s.place.local)
                        changed = True
        # plus enum-tagged locals (`Err(..)` / `None` verdicts of merged helpers travelling through `?`)
        self.flags = sorted(flags) + [f for f in scenario_flags(body) if f not in flags]
        if len(self.flags) > 28:
            self.flags = self.flags[:28]
        self.graphs = {}
        self.reach = {}
        self.atoms_used = set()
        for v in values:
            def hook(bb, i, s, v=v):
                c = self.cmp.get((bb, i))
                if c is None:
                    return None
                a = evaluate(c[1], lambda x: atom(x, v))
                b = evaluate(c[2], lambda x: atom(x, v))
                if a is None or b is None:
                    return None
                return OPS[c[0]](a, b)
            swcache = {}

            def swhook(bb, v=v, swcache=swcache):
                if switch_eval is None:
                    return None
                if bb not in swcache:
                    r = None
                    if not body.is_noise(body.blocks[bb].term):
                        e, ls = an.switch_info(bb, opt=True)
                        chosen = switch_eval(e, ls, v)
                        if chosen is not None:
                            r = [tb for tb, l in ls.items() if any(x in chosen for x in l)]
                            self.decided_switches.add(bb)
                    swcache[bb] = r
                return swcache[bb]
            g = Graph(body, self.flags, hook=hook, swhook=swhook)
            self.graphs[v] = g
            self.reach[v] = set(g.bb(n) for n in g.reachable())

    def reachable(self, v, bb):
        return bb in self.reach[v]

    def cmp_blocks(self):
        return sorted(set(bb for bb, _ in self.cmp))


def scenario_flags(body, seeds=()):
    """bool locals worth tracking in a scenario graph: the seeds (results of decided calls / comparisons), every bool
    local with a constant definition, and what is built from those by copies and `!`"""
    flags = set(seeds)
    for blk in body.blocks:
        if blk.cleanup:
            continue
        for s in blk.stmts:
            if s.kind == "assign" and s.place.is_local() and body.locals[s.place.local].get("s") == "bool" and not body.is_noise(s) \
                    and s.rv.k == "use" and s.rv.ops and s.rv.ops[0].const_bool() is not None:
                flags.add(s.place.local)
    # enum-typed locals that are assigned a variant literally (`next = None` / `next = Some(x)`) and tested later
    tested = set()
    for blk in body.blocks:
        if blk.cleanup:
            continue
        for s in blk.stmts:
            if s.kind == "assign" and s.rv.k == "discr" and s.rv.place is not None and s.rv.place.is_local():
                tested.add(s.rv.place.local)
    tags = set()
    for blk in body.blocks:
        if blk.cleanup:
            continue
        for s in blk.stmts:
            if s.kind == "assign" and s.place.is_local() and s.rv.k == "agg" and s.rv.j.get("ak") == "adt" and "vidx" in s.rv.j \
                    and not body.is_noise(s):
                tags.add(s.place.local)
    changed = True
    while changed:
        changed = False
        for blk in body.blocks:
            if blk.cleanup:
                continue
            for s in blk.stmts:
                if s.kind != "assign" or not s.place.is_local() or body.is_noise(s):
                    continue
                if s.place.local not in flags and body.locals[s.place.local].get("s") == "bool" and s.rv.k in ("use", "unop") and s.rv.ops \
                        and s.rv.ops[0].place is not None and s.rv.ops[0].place.is_local() and s.rv.ops[0].place.local in flags:
                    flags.add(s.place.local)
                    changed = True
                if s.place.local not in tags and s.rv.k == "use" and s.rv.ops and s.rv.ops[0].place is not None \
                        and s.rv.ops[0].place.local in tags and (s.rv.ops[0].place.is_local() or (
                            len(s.rv.ops[0].place.proj) == 2 and isinstance(s.rv.ops[0].place.proj[0], dict) and "dc" in s.rv.ops[0].place.proj[0])):
                    tags.add(s.place.local)
                    changed = True
    # the re-wrapped error of a `?` is a literal Err/None as well
    for blk in body.blocks:
        t = blk.term
        if not blk.cleanup and t.kind == "call" and t.callee and short(t.callee["def"]).endswith("FromResidual::from_residual") \
                and t.dest is not None and t.dest.is_local() and t.dest.local != 0:
            tags.add(t.dest.local)
    # `x?` on a tagged value: the ControlFlow returned by Try::branch carries the matching tag
    for blk in body.blocks:
        t = blk.term
        if not blk.cleanup and t.kind == "call" and t.callee and short(t.callee["def"]).endswith("Try::branch") and t.dest is not None \
                and t.dest.is_local() and t.args and t.args[0].place is not None and t.args[0].place.is_local() and t.args[0].place.local in tags:
            tags.add(t.dest.local)
    # only chains that end in a test matter
    live = set(t for t in tags if t in tested)
    changed = True
    while changed:
        changed = False
        for blk in body.blocks:
            if blk.cleanup:
                continue
            t3 = blk.term
            if t3.kind == "call" and t3.dest is not None and t3.dest.is_local() and t3.dest.local in live and t3.args \
                    and t3.args[0].place is not None and t3.args[0].place.local in tags and t3.args[0].place.local not in live:
                live.add(t3.args[0].place.local)
                changed = True
            for s in blk.stmts:
                if s.kind == "assign" and s.place.is_local() and s.place.local in live and s.rv.k in ("use", "agg") and s.rv.ops \
                        and s.rv.ops[0].place is not None and s.rv.ops[0].place.local in tags \
                        and s.rv.ops[0].place.local not in live:
                    live.add(s.rv.ops[0].place.local)
                    changed = True
    # enum tags first: they carry the verdicts of merged helpers and are the ones a cap on the number of flags must not cut
    return sorted(live - flags) + sorted(flags)


class Scenario(object):
    """The body's CFG under an assumption about a few decisions: `calls` maps a call's block to the boolean it returns,
    `switches(bb, expr, labels)` may restrict a switch to some of its labels. What stays reachable is what the function
    can do under that assumption, however the decision is threaded through helpers, `&&`, intermediate bindings."""

    def __init__(self, ctx, body, calls=None, switches=None, opt=True):
        an = ctx.an(body)
        calls = dict(calls or {})
        seeds = []
        for bb in calls:
            t = body.blocks[bb].term
            if t.kind == "call" and t.dest is not None and t.dest.is_local() and body.locals[t.dest.local].get("s") == "bool":
                seeds.append(t.dest.local)
        flags = scenario_flags(body, seeds)
        if len(flags) > 24:
            keep = set(seeds)
            flags = [f for f in flags if f in keep] + [f for f in flags if f not in keep][:24 - len(keep)]
        self._sw = {}

        def swhook(bb):
            if switches is None:
                return None
            if bb not in self._sw:
                r = None
                if not body.is_noise(body.blocks[bb].term):
                    e, ls = an.switch_info(bb, opt=opt)
                    chosen = switches(bb, e, ls)
                    if chosen is not None:
                        r = [tb for tb, l in ls.items() if any(x in chosen for x in l)]
                self._sw[bb] = r
            return self._sw[bb]
        self.g = Graph(body, flags, callhook=lambda bb, t: calls.get(bb), swhook=swhook)
        self.reach = set(self.g.bb(n) for n in self.g.reachable())
        self.body = body

    def reachable(self, bb):
        return bb in self.reach

    def reach_from(self, bbs):
        starts = []
        for bb in bbs:
            starts += self.g.nodes_of_bb(bb)
        return set(self.g.bb(n) for n in self.g.reachable(starts)) if starts else set()

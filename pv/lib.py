"""Helpers shared by the rule modules."""
import re

from . import flow
from .flow import short, strip, origins, render, find_all, calls_in


def cname(term):
    """short resolved callee name of a call terminator ('' for indirect calls)"""
    c = term.callee
    if not c:
        return ""
    return short(c.get("resolved") or c["def"])


def dname(term):
    c = term.callee
    return short(c["def"]) if c else ""


def calls(body, suffixes, noise=False):
    """[(bb, term)] non-noise calls whose declared or resolved callee ends with one of `suffixes`"""
    if isinstance(suffixes, str):
        suffixes = (suffixes,)
    out = []
    for bb, t in body.calls():
        if not noise and body.is_noise(t):
            continue
        n1, n2 = dname(t), cname(t)
        if any(n1.endswith(s) or n2.endswith(s) for s in suffixes):
            out.append((bb, t))
    return out


def garg(term, i=0):
    c = term.callee
    if c and len(c["gargs"]) > i:
        return c["gargs"][i]
    return None


def arg(an, bb, term, i):
    return an.operand_expr(term.args[i], (bb, "term"))


def return_expr(an):
    body = an.body
    es = []
    for b in body.blocks:
        if b.cleanup or b.term.kind != "return":
            continue
        es.append(an.local_expr(0, (b.idx, "term"), 0))
    if not es:
        return ("unknown", "no return")
    return an._phi(es)


def is_param(e, body, name=None, index=None):
    """e (after stripping) is parameter `name` of the body, or of the enclosing async fn (captured upvar)"""
    e = strip(e)
    if e[0] == "param":
        return (name is None or e[2] == name) and (index is None or e[1] == index)
    if e[0] == "field" and strip(e[1])[0] == "env":
        return name is None or e[2] == name
    return False


def param_name(e):
    e = strip(e)
    if e[0] == "param":
        return e[2]
    if e[0] == "field" and strip(e[1])[0] == "env":
        return e[2]
    return None


def self_field(e, field=None):
    """e is self.<field> (self being a param or a captured `self` of an async fn); returns field name"""
    e = strip(e)
    if e[0] != "field":
        return None
    b = strip(e[1])
    is_self = False
    if b[0] == "param" and b[2] == "self":
        is_self = True
    if b[0] == "field" and b[2] in ("self", "_ref__self") and strip(b[1])[0] == "env":
        is_self = True
    if not is_self:
        return None
    if field is not None and e[2] != field:
        return None
    return e[2]


def field_path(e):
    """(root, [fields]) of a chain of field projections after stripping wrappers"""
    fs = []
    e = strip(e)
    while e[0] in ("field", "variant"):
        if e[0] == "field":
            fs.append(e[2])
        e = strip(e[1])
    return e, list(reversed(fs))


def site(body, bb):
    return body.site(body.blocks[bb].term)


def always_before(g, a_bb, b_bb):
    """every path entry -> b passes a"""
    ok, _ = g.must_pass(b_bb, cut_nodes=[a_bb])
    return ok


def on_every_return_path(g, bb):
    """every entry -> return path passes bb"""
    rets = [b.idx for b in g.body.blocks if b.term.kind == "return" and not b.cleanup]
    for r in rets:
        p = g.path(None, [r], cut_nodes=[bb])
        if p is not None:
            return False, p
    return True, None


def try_edges(an, call_bb):
    """For a fallible call at call_bb whose result is consumed by `?` (possibly after .await /
    map_err / inspect_err): return list of (switch_bb, ok_target, err_target)."""
    body = an.body
    out = []
    for bb, t in calls(body, "Try::branch"):
        e = arg(an, bb, t, 0)
        sites = [c[4] for c in calls_in(e)]
        # innermost producing call: walk through await / adapters
        x = e
        hit = False
        for _ in range(12):
            x = strip(x)
            if x[0] in ("await", "try"):
                x = x[1]
                continue
            if x[0] == "select_out":
                x = x[3]
                continue
            if x[0] == "call":
                if x[4] == call_bb:
                    hit = True
                    break
                nm = short(x[2] or x[1])
                if nm.endswith(("map_err", "inspect_err", "map", "Instrument::instrument", "instrument",
                                "IntoFuture::into_future", "ok_or", "ok_or_else")) and x[3]:
                    x = x[3][0]
                    continue
            break
        if not hit:
            continue
        nb = t.target
        sw = body.blocks[nb].term
        if sw.kind != "switch":
            continue
        info = an.switch_info(nb)
        ok_t = [tb for tb, ls in info[1].items() if "Continue" in ls]
        err_t = [tb for tb, ls in info[1].items() if "Break" in ls]
        if ok_t and err_t:
            out.append((nb, ok_t[0], err_t[0]))
    return out


def sends_on_path(g, body, starts_bb, send_bbs, until_return=True):
    """is any send call block reachable from `starts_bb` (list of bbs)? returns reachable send bbs"""
    starts = []
    for s in starts_bb:
        starts.extend(g.nodes_of_bb(s))
    reach = g.reachable(starts)
    rb = set(g.bb(n) for n in reach)
    return [b for b in send_bbs if b in rb]


def builder_updates(an):
    """for a `fn with_x(mut self, v) -> Self` builder: {field: expr} of the partial updates of the
    returned self"""
    e = return_expr(an)
    out = {}
    for u in find_all(e, lambda x: x[0] == "update"):
        out[u[1]] = u[2]
    return out


def param_path(e):
    """(param name, [field path]) when e is a projection of a parameter (directly or as captured by an
    async fn / closure), else (None, [])"""
    root, fs = field_path(e)
    if root[0] == "param":
        return root[2], fs
    if root[0] == "env" and fs:
        return fs[0], fs[1:]
    return None, []


def awaits(ctx, body):
    """[(bb, kind, name, key)] for every `.await` in a coroutine body: kind 'ws' = workspace coroutine
    (key = its body key), 'ext' = library future (name = producing call / future type)"""
    an = ctx.an(body)
    out = []
    for bb, t in body.calls():
        if not dname(t).endswith("Future::poll"):
            continue
        if not body.in_macro(t, ("d:Await",)):
            continue
        c = t.callee
        rk = c.get("resolved_key")
        if rk and rk in ctx.prog.lib_bodies:
            out.append((bb, "ws", short(c.get("resolved")), rk))
            continue
        e = an.operand_expr(t.args[0], (bb, "term"))
        fut = an._await_of_poll(("call", c["def"], c.get("resolved"), (e,), bb, ()))
        f = strip(fut[1]) if fut[0] == "await" else strip(fut)
        # look through wrappers that only decorate a future
        for _ in range(6):
            if f[0] == "call" and short(f[1]).endswith(("Instrument::instrument", "IntoFuture::into_future", "WithSubscriber::with_subscriber")) and f[3]:
                f = strip(f[3][0])
            else:
                break
        if f[0] == "agg" and f[1].startswith(("coroutine:", "closure:")) and f[1].split(":", 1)[1] in ctx.prog.lib_bodies:
            out.append((bb, "ws", f[1].split(":", 1)[1], f[1].split(":", 1)[1]))
        elif f[0] == "select":
            out.append((bb, "select", "select!", f))
        elif f[0] == "call":
            wk = _ws_coroutine_of(ctx, f)
            if wk:
                out.append((bb, "ws", short(f[2] or f[1]), wk))
            else:
                out.append((bb, "ext", short(f[2] or f[1]), f))
        else:
            out.append((bb, "ext", short(c.get("resolved") or c["def"]), f))
    return out


def _ws_coroutine_of(ctx, callexpr):
    """body key of the coroutine created by a call to a workspace `async fn` (by pretty name)"""
    idx = getattr(ctx.prog, "_name_index", None)
    if idx is None:
        idx = {}
        for k, b in ctx.prog.lib_bodies.items():
            idx.setdefault(b.name, k)
        ctx.prog._name_index = idx
    for nm in (callexpr[2], callexpr[1]):
        if nm and nm in idx:
            k = idx[nm] + "::{closure#0}"
            if k in ctx.prog.lib_bodies:
                return k
    return None


def _helper_return(prog, name):
    """return expression of a small synchronous workspace fn identified by its pretty name (cached)"""
    cache = getattr(prog, "_helper_ret", None)
    if cache is None:
        cache = prog._helper_ret = {}
    if name in cache:
        return cache[name]
    idx = getattr(prog, "_name_index2", None)
    if idx is None:
        idx = prog._name_index2 = {}
        for k, b in prog.lib_bodies.items():
            idx.setdefault(b.name, b)
    b = idx.get(name)
    cache[name] = None
    if b is None or b.kind not in ("Fn", "AssocFn") or b.coroutine or len(b.blocks) > 60:
        return None
    if (b.key + "::{closure#0}") in prog.lib_bodies and prog.lib_bodies[b.key + "::{closure#0}"].coroutine:
        return None   # async fn
    an = flow.Analyzer(b, prog)
    cache[name] = return_expr(an)
    return cache[name]


def deep_calls(prog, e, suffix, depth=3):
    """like calls_in, but also looks into the bodies of small workspace helper functions called from e
    (helper extraction must not hide a mechanism). Returns [(call node in e's own body, inner call node)]"""
    out = []
    for c in calls_in(e):
        nm = short(c[2] or c[1])
        if nm.endswith(suffix) or short(c[1]).endswith(suffix):
            out.append((c, c))
            if suffix:
                continue
        if depth > 0:
            for name in (c[2], c[1]):
                r = _helper_return(prog, name) if name else None
                if r is not None:
                    inner = deep_calls(prog, r, suffix, depth - 1)
                    if inner:
                        out.append((c, inner[0][1]))
                    break
    return out


def int_value(e):
    """integer value of an expression that is a literal, a constant item, or either behind value-preserving
    conversions (casts, From/Into, references); None otherwise"""
    from . import flow as _f
    for _ in range(12):
        e = _f.strip(e)
        if e[0] == "cast":
            e = e[2]
            continue
        if e[0] == "phi":
            vs = set(int_value(x) for x in e[1])
            return vs.pop() if len(vs) == 1 else None
        break
    if e[0] == "const" and isinstance(e[2], int) and not isinstance(e[2], bool):
        return e[2]
    if e[0] == "constitem" and isinstance(e[2], int) and not isinstance(e[2], bool):
        return e[2]
    return None


def binop_consts(ctx, body):
    """set of (binary operator, integer constant operand) over the non-diagnostic statements of a body; constants
    are resolved through named constants and value-preserving conversions"""
    an = ctx.an(body)
    out = set()
    for blk in body.blocks:
        if blk.cleanup:
            continue
        for i, s in enumerate(blk.stmts):
            if s.kind == "assign" and s.rv.k == "binop" and not body.is_noise(s):
                for o in s.rv.ops:
                    v = o.const_int()
                    if v is None:
                        v = int_value(an.operand_expr(o, (blk.idx, i), 0))
                    if v is not None:
                        out.add((s.rv.j["op"], v))
    return out


def closure_effects(ctx, body, names):
    """calls made on behalf of `body` by a closure it hands to another call (`iter.for_each(|x| c.f(x))`):
    [(bb, term, argi, closure_body, ibb, iterm, recv_expr)] — bb/term is the call in `body` receiving the closure as
    argument argi; ibb/iterm the call to one of `names` inside the closure; recv_expr the value captured for the
    closure variable that is the inner call's first argument (None if the receiver is not a captured variable)."""
    from . import flow as _f
    an = ctx.an(body)
    out = []
    for bb, t in body.calls():
        if body.is_noise(t):
            continue
        for ai in range(len(t.args)):
            e = _f.strip(arg(an, bb, t, ai))
            if e[0] != "agg" or not e[1].startswith("closure:"):
                continue
            cb = ctx.prog.bodies.get(e[1].split(":", 1)[1])
            if cb is None:
                continue
            can = ctx.an(cb)
            caps = dict(e[2])
            for ibb, it in calls(cb, names):
                r = _f.strip(arg(can, ibb, it, 0))
                recv = None
                if r[0] == "field" and _f.strip(r[1])[0] in ("env", "param"):
                    recv = caps.get(r[2])
                out.append((bb, t, ai, cb, ibb, it, recv))
    return out


def tracing_region_blocks(body):
    """blocks that only run when a tracing/log macro's `enabled` test passed: between a diagnostic switch and its immediate
    post-dominator. Expressions the user wrote as arguments of the macro (`trace!(n = a - b)`) live there."""
    cached = getattr(body, "_tracing_region", None)
    if cached is not None:
        return cached
    from . import boolform
    ipd = getattr(body, "_ipdom", None)
    if ipd is None:
        ipd = body._ipdom = boolform._ipdom(body)
    idom, EXIT = ipd
    region = set()
    for blk in body.blocks:
        if blk.cleanup or blk.term.kind != "switch" or not body.is_noise(blk.term):
            continue
        stop = idom.get(blk.idx)
        if stop is None:
            continue
        work = [s for s in body.succ[blk.idx]]
        seen = set()
        while work:
            x = work.pop()
            if x == stop or x in seen or x == EXIT:
                continue
            seen.add(x)
            work.extend(body.succ[x])
        region |= seen
    body._tracing_region = region
    return region


def closure_arg_calls(ctx, body, outer_names):
    """[(bb, term, argi, closure_body)] for calls in `body` to one of `outer_names` that receive a closure literal"""
    from . import flow as _f
    an = ctx.an(body)
    out = []
    for bb, t in calls(body, outer_names):
        for ai in range(len(t.args)):
            e = _f.strip(arg(an, bb, t, ai))
            if e[0] == "agg" and e[1].startswith("closure:"):
                cb = ctx.prog.bodies.get(e[1].split(":", 1)[1])
                if cb is not None:
                    out.append((bb, t, ai, cb))
    return out


def spawned_future(ctx, an, fut):
    """(task body, {captured name: expression}) for the future handed to a spawn call: an `async move { .. }` block of the
    spawning function, or a call of a workspace `async fn` (its parameters are the captures)"""
    from . import flow as _f
    fut = _f.strip(fut)
    if fut[0] == "agg" and fut[1].startswith("coroutine:"):
        return ctx.prog.lib_bodies.get(fut[1].split(":", 1)[1]) or ctx.prog.bodies.get(fut[1].split(":", 1)[1]), dict(fut[2])
    if fut[0] == "call":
        key = None
        for cand in (fut[2], fut[1]):
            if not cand:
                continue
            for k, b in ctx.prog.bodies.items():
                if b.kind in ("Fn", "AssocFn") and (b.name == cand or _f.short(b.name) == _f.short(cand)) and (k + "::{closure#0}") in ctx.prog.bodies:
                    key = k
                    break
            if key:
                break
        if key:
            fb = ctx.prog.bodies[key]
            co = ctx.prog.bodies[key + "::{closure#0}"]
            caps = {}
            for blk in fb.blocks:
                for s in blk.stmts:
                    if s.kind == "assign" and s.rv.k == "agg" and s.rv.j.get("closure") == co.key:
                        for fname, op in zip(s.rv.j.get("fields", []), s.rv.ops):
                            if op.place is not None and op.place.is_local() and 1 <= op.place.local <= fb.arg_count and op.place.local - 1 < len(fut[3]):
                                caps[fname] = fut[3][op.place.local - 1]
            return co, caps
    return None, {}


def diagnostic_only_branch(body, bb):
    """the switch at bb only decides whether something is logged: every block between it and its immediate post-dominator
    contains nothing but tracing-macro code (and storage / unit assignments)"""
    from . import boolform
    ipd = getattr(body, "_ipdom", None)
    if ipd is None:
        ipd = body._ipdom = boolform._ipdom(body)
    idom, EXIT = ipd
    stop = idom.get(bb)
    if stop is None or stop == EXIT:
        return False
    work = list(body.succ[bb])
    seen = set()
    while work:
        x = work.pop()
        if x == stop or x in seen:
            continue
        seen.add(x)
        blk = body.blocks[x]
        if blk.cleanup:
            continue
        if x in tracing_region_blocks(body):
            work.extend(body.succ[x])
            continue        # argument expressions of the macro, evaluated only when the event is enabled
        for s in blk.stmts:
            if s.kind == "assign" and not body.is_noise(s):
                # unit / constant bookkeeping only
                if not (s.rv.k == "use" and s.rv.ops and s.rv.ops[0].place is None) and not (s.rv.k == "agg" and not s.rv.ops):
                    return False
        t = blk.term
        if t.kind in ("call", "assert", "yield", "return") and not body.is_noise(t):
            return False
        if t.kind == "switch" and not body.is_noise(t) and not diagnostic_only_branch(body, x):
            return False
        work.extend(body.succ[x])
    return bool(seen)

// passage-facts: a rustc_private driver that dumps a JSON IR (MIR before the coroutine
// transform + type/impl/const tables) for every workspace crate it is wrapped around.
//
// Usage: RUSTC_WORKSPACE_WRAPPER=<this binary> PASSAGE_FACTS_OUT=<dir> cargo +nightly check ...
// cargo invokes `<wrapper> <rustc> <args...>`; argv[1] is dropped.
#![feature(rustc_private)]
#![allow(clippy::all)]

extern crate rustc_abi;
extern crate rustc_data_structures;
extern crate rustc_driver;
extern crate rustc_hir;
extern crate rustc_index;
extern crate rustc_interface;
extern crate rustc_middle;
extern crate rustc_session;
extern crate rustc_span;

use rustc_driver::{Callbacks, Compilation};
use rustc_hir::def::DefKind;
use rustc_hir::def_id::{DefId, LocalDefId, LOCAL_CRATE};
use rustc_middle::mir::{
    self, AggregateKind, BasicBlockData, Body, Operand, Place, ProjectionElem, Rvalue,
    StatementKind, TerminatorKind, VarDebugInfoContents,
};
use rustc_middle::ty::print::{with_crate_prefix, with_no_trimmed_paths};
use rustc_middle::ty::{self, Ty, TyCtxt};
use rustc_span::{ExpnKind, Span, SyntaxContext};
use std::collections::HashMap;
use std::fmt::Write as _;

// ---------------------------------------------------------------------------------------
// tiny JSON value
// ---------------------------------------------------------------------------------------
enum J {
    Null,
    B(bool),
    I(i128),
    S(String),
    A(Vec<J>),
    O(Vec<(&'static str, J)>),
}

fn esc(s: &str, out: &mut String) {
    out.push('"');
    for c in s.chars() {
        match c {
            '"' => out.push_str("\\\""),
            '\\' => out.push_str("\\\\"),
            '\n' => out.push_str("\\n"),
            '\r' => out.push_str("\\r"),
            '\t' => out.push_str("\\t"),
            c if (c as u32) < 0x20 => {
                let _ = write!(out, "\\u{:04x}", c as u32);
            }
            c => out.push(c),
        }
    }
    out.push('"');
}

impl J {
    fn s<T: Into<String>>(t: T) -> J {
        J::S(t.into())
    }
    fn write(&self, out: &mut String) {
        match self {
            J::Null => out.push_str("null"),
            J::B(b) => out.push_str(if *b { "true" } else { "false" }),
            J::I(i) => {
                let _ = write!(out, "{}", i);
            }
            J::S(s) => esc(s, out),
            J::A(v) => {
                out.push('[');
                for (i, x) in v.iter().enumerate() {
                    if i > 0 {
                        out.push(',');
                    }
                    x.write(out);
                }
                out.push(']');
            }
            J::O(v) => {
                out.push('{');
                for (i, (k, x)) in v.iter().enumerate() {
                    if i > 0 {
                        out.push(',');
                    }
                    esc(k, out);
                    out.push(':');
                    x.write(out);
                }
                out.push('}');
            }
        }
    }
}

// ---------------------------------------------------------------------------------------
// context
// ---------------------------------------------------------------------------------------
struct Cx<'tcx> {
    tcx: TyCtxt<'tcx>,
    krate: String,
    ctxts: HashMap<SyntaxContext, usize>,
    ctxt_table: Vec<J>,
}

thread_local! {
    static KRATE: std::cell::RefCell<String> = std::cell::RefCell::new(String::new());
}
/// replace the `crate::` prefix printed for local paths by the crate's name so that a path reads
/// the same from every crate of the workspace
fn fix_crate(s: String) -> String {
    if !s.contains("crate::") {
        return s;
    }
    let k = KRATE.with(|k| k.borrow().clone());
    let b = s.as_bytes();
    let mut out = String::with_capacity(s.len() + 16);
    let mut i = 0;
    while i < b.len() {
        if s[i..].starts_with("crate::")
            && (i == 0 || !(b[i - 1].is_ascii_alphanumeric() || b[i - 1] == b'_'))
        {
            out.push_str(&k);
            out.push_str("::");
            i += 7;
        } else {
            let ch = s[i..].chars().next().unwrap();
            out.push(ch);
            i += ch.len_utf8();
        }
    }
    out
}
fn nt<T: std::fmt::Display>(t: T) -> String {
    fix_crate(with_crate_prefix!(with_no_trimmed_paths!(format!("{}", t))))
}
fn ntd<T: std::fmt::Debug>(t: T) -> String {
    fix_crate(with_crate_prefix!(with_no_trimmed_paths!(format!("{:?}", t))))
}

impl<'tcx> Cx<'tcx> {
    fn crate_name_of(&self, did: DefId) -> String {
        self.tcx.crate_name(did.krate).to_string()
    }
    /// stable unique key of a definition: `<crate>::mod::{impl#0}::f::{closure#0}`
    fn key(&self, did: DefId) -> String {
        format!("{}{}", self.crate_name_of(did), self.tcx.def_path(did).to_string_no_crate_verbose())
    }
    /// pretty path: `<X as Trait>::f`, `crate::mod::Type::<T>::f`
    fn pretty(&self, did: DefId) -> String {
        fix_crate(with_crate_prefix!(with_no_trimmed_paths!(self.tcx.def_path_str(did))))
    }

    fn loc(&self, span: Span) -> String {
        if span.is_dummy() {
            return String::new();
        }
        let sm = self.tcx.sess.source_map();
        let lo = sm.lookup_char_pos(span.lo());
        format!("{}:{}:{}", lo.file.name.prefer_local_unconditionally(), lo.line, lo.col.0 + 1)
    }

    fn ctxt_idx(&mut self, span: Span) -> usize {
        let ctxt = span.ctxt();
        if ctxt.is_root() {
            return 0;
        }
        if let Some(i) = self.ctxts.get(&ctxt) {
            return *i;
        }
        let mut chain = vec![];
        for ed in span.macro_backtrace() {
            match ed.kind {
                ExpnKind::Macro(_, name) => {
                    let full = match ed.macro_def_id {
                        Some(d) => self.pretty(d),
                        None => name.to_string(),
                    };
                    chain.push(J::S(format!("m:{}", full)));
                }
                ExpnKind::Desugaring(k) => chain.push(J::S(format!("d:{:?}", k))),
                ExpnKind::AstPass(k) => chain.push(J::S(format!("a:{:?}", k))),
                ExpnKind::Root => {}
            }
        }
        let idx = self.ctxt_table.len();
        self.ctxt_table.push(J::A(chain));
        self.ctxts.insert(ctxt, idx);
        idx
    }

    fn src(&mut self, span: Span, into: &mut Vec<(&'static str, J)>) {
        into.push(("loc", J::S(self.loc(span))));
        let x = self.ctxt_idx(span);
        if x != 0 {
            into.push(("x", J::I(x as i128)));
            let cs = span.source_callsite();
            into.push(("cs", J::S(self.loc(cs))));
        }
    }

    fn ty(&self, t: Ty<'tcx>) -> J {
        J::S(nt(t))
    }

    // structured description of a type: kind + adt path + generic args (one level)
    fn ty_info(&self, t: Ty<'tcx>) -> J {
        let mut o = vec![("s", J::S(nt(t)))];
        match t.kind() {
            ty::Adt(def, args) => {
                o.push(("adt", J::S(self.pretty(def.did()))));
                o.push(("args", J::A(args.iter().map(|a| J::S(nt(a))).collect())));
            }
            ty::Ref(_, inner, m) => {
                o.push(("ref", J::S(nt(*inner))));
                o.push(("mut", J::B(m.is_mut())));
            }
            ty::Closure(d, _) | ty::Coroutine(d, _) | ty::CoroutineClosure(d, _) => {
                o.push(("closure", J::S(self.key(*d))));
            }
            ty::FnDef(d, args) => {
                o.push(("fndef", J::S(self.pretty(*d))));
                o.push(("args", J::A(args.iter().map(|a| J::S(nt(a))).collect())));
            }
            ty::Param(p) => o.push(("param", J::S(p.name.to_string()))),
            ty::Tuple(ts) => o.push(("tuple", J::A(ts.iter().map(|x| J::S(nt(x))).collect()))),
            _ => {}
        }
        J::O(o)
    }

    fn place(&self, body: &Body<'tcx>, p: Place<'tcx>) -> J {
        let tcx = self.tcx;
        let mut pty = mir::PlaceTy::from_ty(body.local_decls[p.local].ty);
        let mut proj = vec![];
        for elem in p.projection.iter() {
            let j = match elem {
                ProjectionElem::Deref => J::s("*"),
                ProjectionElem::Field(f, fty) => {
                    let mut name = format!("{}", f.index());
                    match pty.ty.kind() {
                        ty::Adt(adt, _) => {
                            let v = match pty.variant_index {
                                Some(v) => Some(v),
                                None if adt.is_struct() || adt.is_union() => {
                                    Some(rustc_abi::FIRST_VARIANT)
                                }
                                None => None,
                            };
                            if let Some(v) = v {
                                if let Some(fd) = adt.variant(v).fields.get(f) {
                                    name = fd.name.to_string();
                                }
                            }
                        }
                        ty::Closure(d, _) | ty::Coroutine(d, _) | ty::CoroutineClosure(d, _) => {
                            let names = tcx.closure_saved_names_of_captured_variables(*d);
                            if let Some(n) = names.get(f) {
                                name = n.to_string();
                            }
                        }
                        _ => {}
                    }
                    J::O(vec![("f", J::I(f.index() as i128)), ("n", J::S(name)), ("ty", J::S(nt(fty)))])
                }
                ProjectionElem::Index(l) => J::O(vec![("idx", J::I(l.index() as i128))]),
                ProjectionElem::ConstantIndex { offset, min_length, from_end } => J::O(vec![
                    ("cidx", J::I(offset as i128)),
                    ("min", J::I(min_length as i128)),
                    ("from_end", J::B(from_end)),
                ]),
                ProjectionElem::Subslice { from, to, from_end } => J::O(vec![
                    ("sub_from", J::I(from as i128)),
                    ("sub_to", J::I(to as i128)),
                    ("from_end", J::B(from_end)),
                ]),
                ProjectionElem::Downcast(name, v) => {
                    let n = match name {
                        Some(s) => s.to_string(),
                        None => match pty.ty.kind() {
                            ty::Adt(adt, _) => adt.variant(v).name.to_string(),
                            _ => format!("{}", v.index()),
                        },
                    };
                    J::O(vec![("dc", J::S(n)), ("v", J::I(v.index() as i128))])
                }
                ProjectionElem::OpaqueCast(t) => J::O(vec![("opaque", J::S(nt(t)))]),
                ProjectionElem::UnwrapUnsafeBinder(t) => J::O(vec![("unbind", J::S(nt(t)))]),
            };
            proj.push(j);
            pty = pty.projection_ty(tcx, elem);
        }
        J::O(vec![("l", J::I(p.local.index() as i128)), ("p", J::A(proj))])
    }

    fn fn_def_info(&self, body_did: DefId, did: DefId, args: ty::GenericArgsRef<'tcx>) -> Vec<(&'static str, J)> {
        let tcx = self.tcx;
        let mut o = vec![
            ("def", J::S(self.pretty(did))),
            ("key", J::S(self.key(did))),
            ("name", J::S(tcx.item_name(did).to_string())),
            ("gargs", J::A(args.iter().map(|a| J::S(nt(a))).collect())),
        ];
        if let Some(t) = tcx.trait_of_assoc(did) {
            o.push(("trait", J::S(self.pretty(t))));
        }
        if let Some(i) = tcx.inherent_impl_of_assoc(did) {
            let st = tcx.type_of(i).instantiate_identity().skip_normalization();
            o.push(("impl_self", J::S(nt(st))));
            if let ty::Adt(adt, _) = st.kind() {
                o.push(("impl_adt", J::S(self.pretty(adt.did()))));
            }
        }
        if let Some(i) = tcx.trait_impl_of_assoc(did) {
            let st = tcx.type_of(i).instantiate_identity().skip_normalization();
            o.push(("impl_self", J::S(nt(st))));
            if let Some(tr) = tcx.impl_opt_trait_ref(i) {
                let tr = tr.instantiate_identity().skip_normalization();
                o.push(("impl_trait", J::S(self.pretty(tr.def_id))));
            }
        }
        // resolve trait method calls to the impl where the receiver type is known
        if matches!(tcx.def_kind(did), DefKind::Fn | DefKind::AssocFn) && tcx.trait_of_assoc(did).is_some() {
            let env = ty::TypingEnv::post_analysis(tcx, body_did);
            if let Ok(nargs) = tcx.try_normalize_erasing_regions(env, rustc_middle::ty::Unnormalized::new_wip(args)) {
                if let Ok(Some(inst)) = ty::Instance::try_resolve(tcx, env, did, nargs) {
                    let rd = inst.def_id();
                    if rd != did {
                        o.push(("resolved", J::S(self.pretty(rd))));
                        o.push(("resolved_key", J::S(self.key(rd))));
                    }
                }
            }
        }
        o
    }

    fn constant(&self, body_did: DefId, c: &mir::ConstOperand<'tcx>) -> J {
        let tcx = self.tcx;
        let k = c.const_;
        let t = k.ty();
        let mut o = vec![("ty", J::S(nt(t))), ("text", J::S(nt(k)))];
        if let ty::FnDef(did, args) = t.kind() {
            o.push(("fn", J::O(self.fn_def_info(body_did, *did, args))));
            return J::O(o);
        }
        if let ty::Closure(did, _) | ty::Coroutine(did, _) = t.kind() {
            o.push(("closure", J::S(self.key(*did))));
        }
        match k {
            mir::Const::Unevaluated(u, _) => {
                o.push(("uneval", J::S(self.pretty(u.def))));
                o.push(("uneval_key", J::S(self.key(u.def))));
                o.push(("uneval_args", J::A(u.args.iter().map(|a| J::S(nt(a))).collect())));
                if let Some(p) = u.promoted {
                    o.push(("promoted", J::I(p.index() as i128)));
                }
            }
            mir::Const::Val(v, _) => self.const_value(v, t, &mut o),
            mir::Const::Ty(_, tc) => {
                if let Some(v) = tc.try_to_value() {
                    if let Some(s) = v.try_to_leaf() {
                        self.scalar_int(s, t, &mut o);
                    }
                }
            }
        }
        J::O(o)
    }

    fn scalar_int(&self, s: ty::ScalarInt, t: Ty<'tcx>, o: &mut Vec<(&'static str, J)>) {
        let size = s.size();
        let bits = s.to_bits(size);
        match t.kind() {
            ty::Bool => o.push(("bool", J::B(bits != 0))),
            ty::Int(_) => {
                let sh = 128 - size.bits();
                let v = if size.bits() == 0 { 0 } else { ((bits as i128) << sh) >> sh };
                o.push(("int", J::I(v)));
            }
            ty::Uint(_) => {
                if bits <= i128::MAX as u128 {
                    o.push(("int", J::I(bits as i128)));
                } else {
                    o.push(("bigint", J::S(format!("{}", bits))));
                }
            }
            ty::Char => {
                if let Some(c) = char::from_u32(bits as u32) {
                    o.push(("char", J::S(c.to_string())));
                }
            }
            ty::Float(ft) => {
                let s = match ft.bit_width() {
                    32 => format!("{:?}", f32::from_bits(bits as u32)),
                    64 => format!("{:?}", f64::from_bits(bits as u64)),
                    _ => format!("bits:{}", bits),
                };
                o.push(("float", J::S(s)));
            }
            _ => o.push(("bits", J::S(format!("{}", bits)))),
        }
    }

    fn const_value(&self, v: mir::ConstValue, t: Ty<'tcx>, o: &mut Vec<(&'static str, J)>) {
        let tcx = self.tcx;
        match v {
            mir::ConstValue::Scalar(mir::interpret::Scalar::Int(s)) => self.scalar_int(s, t, o),
            mir::ConstValue::Scalar(mir::interpret::Scalar::Ptr(ptr, _)) => {
                let (prov, _off) = ptr.prov_and_relative_offset();
                match tcx.try_get_global_alloc(prov.alloc_id()) {
                    Some(mir::interpret::GlobalAlloc::Static(did)) => {
                        o.push(("static", J::S(self.pretty(did))));
                    }
                    Some(mir::interpret::GlobalAlloc::Function { instance }) => {
                        o.push(("fnptr", J::S(self.pretty(instance.def_id()))));
                    }
                    _ => {}
                }
            }
            mir::ConstValue::ZeroSized => o.push(("zst", J::B(true))),
            mir::ConstValue::Slice { .. } => {
                if let Some(bytes) = v.try_get_slice_bytes_for_diagnostics(tcx) {
                    let is_str = matches!(t.kind(), ty::Ref(_, inner, _) if inner.is_str());
                    if is_str {
                        o.push(("str", J::S(String::from_utf8_lossy(bytes).to_string())));
                    } else {
                        o.push(("bytes", J::A(bytes.iter().map(|b| J::I(*b as i128)).collect())));
                    }
                }
            }
            mir::ConstValue::Indirect { .. } => {}
        }
    }

    fn operand(&self, body_did: DefId, body: &Body<'tcx>, op: &Operand<'tcx>) -> J {
        match op {
            Operand::Copy(p) => J::O(vec![("copy", self.place(body, *p))]),
            Operand::Move(p) => J::O(vec![("move", self.place(body, *p))]),
            Operand::Constant(c) => J::O(vec![("const", self.constant(body_did, c))]),
            Operand::RuntimeChecks(r) => J::O(vec![("rtcheck", J::S(format!("{:?}", r)))]),
        }
    }

    fn rvalue(&self, body_did: DefId, body: &Body<'tcx>, rv: &Rvalue<'tcx>) -> J {
        let tcx = self.tcx;
        match rv {
            Rvalue::Use(op, _) => J::O(vec![("k", J::s("use")), ("op", self.operand(body_did, body, op))]),
            Rvalue::Repeat(op, n) => J::O(vec![
                ("k", J::s("repeat")),
                ("op", self.operand(body_did, body, op)),
                ("n", J::S(nt(n))),
            ]),
            Rvalue::Ref(_, bk, p) => J::O(vec![
                ("k", J::s("ref")),
                ("bk", J::S(format!("{:?}", bk))),
                ("place", self.place(body, *p)),
            ]),
            Rvalue::ThreadLocalRef(d) => J::O(vec![("k", J::s("tls")), ("def", J::S(self.pretty(*d)))]),
            Rvalue::RawPtr(k, p) => J::O(vec![
                ("k", J::s("rawptr")),
                ("bk", J::S(format!("{:?}", k))),
                ("place", self.place(body, *p)),
            ]),
            Rvalue::Cast(ck, op, t) => J::O(vec![
                ("k", J::s("cast")),
                ("ck", J::S(format!("{:?}", ck))),
                ("op", self.operand(body_did, body, op)),
                ("from", J::S(nt(op.ty(&body.local_decls, tcx)))),
                ("to", J::S(nt(*t))),
            ]),
            Rvalue::BinaryOp(op, ab) => J::O(vec![
                ("k", J::s("binop")),
                ("op", J::S(format!("{:?}", op))),
                ("a", self.operand(body_did, body, &ab.0)),
                ("b", self.operand(body_did, body, &ab.1)),
                ("aty", J::S(nt(ab.0.ty(&body.local_decls, tcx)))),
            ]),
            Rvalue::UnaryOp(op, a) => J::O(vec![
                ("k", J::s("unop")),
                ("op", J::S(format!("{:?}", op))),
                ("a", self.operand(body_did, body, a)),
            ]),
            Rvalue::Discriminant(p) => J::O(vec![("k", J::s("discr")), ("place", self.place(body, *p))]),
            Rvalue::Aggregate(kind, ops) => {
                let mut o = vec![("k", J::s("agg"))];
                let mut names: Vec<String> = vec![];
                match &**kind {
                    AggregateKind::Array(t) => {
                        o.push(("ak", J::s("array")));
                        o.push(("elem", J::S(nt(*t))));
                    }
                    AggregateKind::Tuple => o.push(("ak", J::s("tuple"))),
                    AggregateKind::Adt(did, v, args, _, active) => {
                        o.push(("ak", J::s("adt")));
                        o.push(("adt", J::S(self.pretty(*did))));
                        let adt = tcx.adt_def(*did);
                        let var = adt.variant(*v);
                        o.push(("variant", J::S(var.name.to_string())));
                        o.push(("vidx", J::I(v.index() as i128)));
                        o.push(("gargs", J::A(args.iter().map(|a| J::S(nt(a))).collect())));
                        if let Some(a) = active {
                            names.push(var.fields[*a].name.to_string());
                        } else {
                            names = var.fields.iter().map(|f| f.name.to_string()).collect();
                        }
                    }
                    AggregateKind::Closure(did, _)
                    | AggregateKind::Coroutine(did, _)
                    | AggregateKind::CoroutineClosure(did, _) => {
                        o.push((
                            "ak",
                            J::s(match &**kind {
                                AggregateKind::Closure(..) => "closure",
                                AggregateKind::Coroutine(..) => "coroutine",
                                _ => "coroutine_closure",
                            }),
                        ));
                        o.push(("closure", J::S(self.key(*did))));
                        names = tcx
                            .closure_saved_names_of_captured_variables(*did)
                            .iter()
                            .map(|s| s.to_string())
                            .collect();
                    }
                    AggregateKind::RawPtr(t, _) => {
                        o.push(("ak", J::s("rawptr")));
                        o.push(("elem", J::S(nt(*t))));
                    }
                }
                o.push(("fields", J::A(names.into_iter().map(J::S).collect())));
                o.push(("ops", J::A(ops.iter().map(|x| self.operand(body_did, body, x)).collect())));
                J::O(o)
            }
            Rvalue::CopyForDeref(p) => J::O(vec![("k", J::s("copyderef")), ("place", self.place(body, *p))]),
            Rvalue::WrapUnsafeBinder(op, _) => {
                J::O(vec![("k", J::s("use")), ("op", self.operand(body_did, body, op))])
            }
        }
    }

    fn block(&mut self, body_did: DefId, body: &Body<'tcx>, bb: &BasicBlockData<'tcx>) -> J {
        let mut stmts = vec![];
        for st in &bb.statements {
            match &st.kind {
                StatementKind::Assign(b) => {
                    let (p, rv) = &**b;
                    let mut o = vec![
                        ("s", J::s("assign")),
                        ("place", self.place(body, *p)),
                        ("rv", self.rvalue(body_did, body, rv)),
                    ];
                    self.src(st.source_info.span, &mut o);
                    stmts.push(J::O(o));
                }
                StatementKind::SetDiscriminant { place, variant_index } => {
                    let mut o = vec![
                        ("s", J::s("setdiscr")),
                        ("place", self.place(body, **place)),
                        ("v", J::I(variant_index.index() as i128)),
                    ];
                    self.src(st.source_info.span, &mut o);
                    stmts.push(J::O(o));
                }
                StatementKind::Intrinsic(i) => {
                    let mut o = vec![("s", J::s("intrinsic")), ("text", J::S(ntd(i)))];
                    self.src(st.source_info.span, &mut o);
                    stmts.push(J::O(o));
                }
                _ => {}
            }
        }
        let term = bb.terminator();
        let mut t: Vec<(&'static str, J)> = vec![];
        let bbj = |b: mir::BasicBlock| J::I(b.index() as i128);
        let unwind = |u: &mir::UnwindAction| match u {
            mir::UnwindAction::Cleanup(b) => J::I(b.index() as i128),
            _ => J::Null,
        };
        match &term.kind {
            TerminatorKind::Goto { target } => {
                t.push(("t", J::s("goto")));
                t.push(("target", bbj(*target)));
            }
            TerminatorKind::SwitchInt { discr, targets } => {
                t.push(("t", J::s("switch")));
                t.push(("discr", self.operand(body_did, body, discr)));
                t.push(("dty", J::S(nt(discr.ty(&body.local_decls, self.tcx)))));
                let mut arms = vec![];
                for (v, b) in targets.iter() {
                    let vj = if v <= i128::MAX as u128 { J::I(v as i128) } else { J::S(format!("{}", v)) };
                    arms.push(J::A(vec![vj, bbj(b)]));
                }
                t.push(("arms", J::A(arms)));
                t.push(("otherwise", bbj(targets.otherwise())));
            }
            TerminatorKind::UnwindResume => t.push(("t", J::s("resume"))),
            TerminatorKind::UnwindTerminate(_) => t.push(("t", J::s("terminate"))),
            TerminatorKind::Return => t.push(("t", J::s("return"))),
            TerminatorKind::Unreachable => t.push(("t", J::s("unreachable"))),
            TerminatorKind::Drop { place, target, unwind: u, .. } => {
                t.push(("t", J::s("drop")));
                t.push(("place", self.place(body, *place)));
                t.push(("target", bbj(*target)));
                t.push(("unwind", unwind(u)));
            }
            TerminatorKind::Call { func, args, destination, target, unwind: u, call_source, fn_span } => {
                t.push(("t", J::s("call")));
                t.push(("func", self.operand(body_did, body, func)));
                t.push(("args", J::A(args.iter().map(|a| self.operand(body_did, body, &a.node)).collect())));
                t.push((
                    "argtys",
                    J::A(args.iter().map(|a| J::S(nt(a.node.ty(&body.local_decls, self.tcx)))).collect()),
                ));
                t.push(("dest", self.place(body, *destination)));
                t.push(("target", match target { Some(b) => bbj(*b), None => J::Null }));
                t.push(("unwind", unwind(u)));
                t.push(("src", J::S(format!("{:?}", call_source))));
                t.push(("fn_loc", J::S(self.loc(*fn_span))));
            }
            TerminatorKind::TailCall { func, args, .. } => {
                t.push(("t", J::s("tailcall")));
                t.push(("func", self.operand(body_did, body, func)));
                t.push(("args", J::A(args.iter().map(|a| self.operand(body_did, body, &a.node)).collect())));
            }
            TerminatorKind::Assert { cond, expected, msg, target, unwind: u } => {
                t.push(("t", J::s("assert")));
                t.push(("cond", self.operand(body_did, body, cond)));
                t.push(("expected", J::B(*expected)));
                let kind = match &**msg {
                    mir::AssertKind::BoundsCheck { .. } => "BoundsCheck".to_string(),
                    mir::AssertKind::Overflow(op, ..) => format!("Overflow({:?})", op),
                    mir::AssertKind::OverflowNeg(..) => "OverflowNeg".to_string(),
                    mir::AssertKind::DivisionByZero(..) => "DivisionByZero".to_string(),
                    mir::AssertKind::RemainderByZero(..) => "RemainderByZero".to_string(),
                    mir::AssertKind::ResumedAfterReturn(..) => "ResumedAfterReturn".to_string(),
                    mir::AssertKind::ResumedAfterPanic(..) => "ResumedAfterPanic".to_string(),
                    mir::AssertKind::ResumedAfterDrop(..) => "ResumedAfterDrop".to_string(),
                    mir::AssertKind::MisalignedPointerDereference { .. } => "Misaligned".to_string(),
                    mir::AssertKind::NullPointerDereference => "NullDeref".to_string(),
                    mir::AssertKind::InvalidEnumConstruction(..) => "InvalidEnum".to_string(),
                };
                t.push(("msg", J::S(kind)));
                t.push(("target", bbj(*target)));
                t.push(("unwind", unwind(u)));
            }
            TerminatorKind::Yield { value, resume, resume_arg, drop } => {
                t.push(("t", J::s("yield")));
                t.push(("value", self.operand(body_did, body, value)));
                t.push(("target", bbj(*resume)));
                t.push(("resume_arg", self.place(body, *resume_arg)));
                t.push(("drop", match drop { Some(b) => bbj(*b), None => J::Null }));
            }
            TerminatorKind::CoroutineDrop => t.push(("t", J::s("coroutine_drop"))),
            TerminatorKind::FalseEdge { real_target, imaginary_target } => {
                t.push(("t", J::s("falseedge")));
                t.push(("target", bbj(*real_target)));
                t.push(("imaginary", bbj(*imaginary_target)));
            }
            TerminatorKind::FalseUnwind { real_target, unwind: u } => {
                t.push(("t", J::s("falseunwind")));
                t.push(("target", bbj(*real_target)));
                t.push(("unwind", unwind(u)));
            }
            TerminatorKind::InlineAsm { targets, .. } => {
                t.push(("t", J::s("asm")));
                t.push(("targets", J::A(targets.iter().map(|b| bbj(*b)).collect())));
            }
        }
        self.src(term.source_info.span, &mut t);
        let mut o = vec![("stmts", J::A(stmts)), ("term", J::O(t))];
        if bb.is_cleanup {
            o.push(("cleanup", J::B(true)));
        }
        J::O(o)
    }

    fn body(&mut self, ldid: LocalDefId, body: &Body<'tcx>) -> J {
        let tcx = self.tcx;
        let did = ldid.to_def_id();
        let mut o: Vec<(&'static str, J)> = vec![
            ("key", J::S(self.key(did))),
            ("name", J::S(self.pretty(did))),
            ("kind", J::S(format!("{:?}", tcx.def_kind(did)))),
            ("loc", J::S(self.loc(tcx.def_span(did)))),
            ("arg_count", J::I(body.arg_count as i128)),
        ];
        if let Some(ck) = tcx.coroutine_kind(did) {
            o.push(("coroutine", J::S(format!("{:?}", ck))));
        }
        if let Some(p) = tcx.opt_local_parent(ldid) {
            o.push(("parent", J::S(self.key(p.to_def_id()))));
        }
        if matches!(tcx.def_kind(did), DefKind::Fn | DefKind::AssocFn) {
            o.push(("vis", J::S(if tcx.visibility(did).is_public() { "pub".to_string() } else { "restricted".to_string() })));
            if let Some(t) = tcx.trait_of_assoc(did) {
                o.push(("trait", J::S(self.pretty(t))));
            }
            if let Some(i) = tcx.impl_of_assoc(did) {
                let st = tcx.type_of(i).instantiate_identity().skip_normalization();
                o.push(("impl_self", J::S(nt(st))));
                if let ty::Adt(adt, _) = st.kind() {
                    o.push(("impl_adt", J::S(self.pretty(adt.did()))));
                }
                if let Some(tr) = tcx.impl_opt_trait_ref(i) {
                    let tr = tr.instantiate_identity().skip_normalization();
                    o.push(("impl_trait", J::S(self.pretty(tr.def_id))));
                }
            }
            o.push(("fn_name", J::S(tcx.item_name(did).to_string())));
        }
        // in_test: any ancestor module carries #[cfg(test)]-only code → recorded by crate-level flag
        let mut locals = vec![];
        for (_l, decl) in body.local_decls.iter_enumerated() {
            locals.push(self.ty_info(decl.ty));
        }
        o.push(("locals", J::A(locals)));
        let mut dbg = vec![];
        for v in &body.var_debug_info {
            let mut e = vec![("name", J::S(v.name.to_string()))];
            match &v.value {
                VarDebugInfoContents::Place(p) => e.push(("place", self.place(body, *p))),
                VarDebugInfoContents::Const(c) => e.push(("const", self.constant(did, c))),
            }
            if let Some(a) = v.argument_index {
                e.push(("arg", J::I(a as i128)));
            }
            dbg.push(J::O(e));
        }
        o.push(("debug", J::A(dbg)));
        let mut blocks = vec![];
        for (_bb, data) in body.basic_blocks.iter_enumerated() {
            blocks.push(self.block(did, body, data));
        }
        o.push(("blocks", J::A(blocks)));
        J::O(o)
    }
}

fn dump<'tcx>(tcx: TyCtxt<'tcx>, out_dir: &str) {
    let krate = tcx.crate_name(LOCAL_CRATE).to_string();
    if krate.starts_with("build_script") {
        return;
    }
    KRATE.with(|k| *k.borrow_mut() = krate.clone());
    let mut cx = Cx { tcx, krate: krate.clone(), ctxts: HashMap::new(), ctxt_table: vec![J::A(vec![])] };
    let crate_types: Vec<String> = tcx.crate_types().iter().map(|c| format!("{:?}", c)).collect();
    let is_test = tcx.sess.is_test_crate();

    // ---- bodies: consts first (see DESIGN §2.1: const-eval of pattern constants steals mir_promoted)
    let mut keys: Vec<LocalDefId> = tcx.mir_keys(()).iter().copied().collect();
    keys.sort_by_key(|d| {
        let k = tcx.def_kind(d.to_def_id());
        let is_fnlike = matches!(k, DefKind::Fn | DefKind::AssocFn | DefKind::Closure | DefKind::SyntheticCoroutineBody);
        (is_fnlike, tcx.def_path(d.to_def_id()).to_string_no_crate_verbose())
    });
    let mut bodies = vec![];
    let mut stolen = vec![];
    for ldid in keys {
        let kind = tcx.def_kind(ldid.to_def_id());
        if matches!(kind, DefKind::Ctor(..)) {
            continue;
        }
        let (steal, promoted) = tcx.mir_promoted(ldid);
        if steal.is_stolen() {
            stolen.push(J::S(cx.key(ldid.to_def_id())));
            continue;
        }
        let body = steal.borrow();
        let j = cx.body(ldid, &body);
        bodies.push(j);
        if !promoted.is_stolen() {
            let proms = promoted.borrow();
            for (pi, pbody) in proms.iter_enumerated() {
                let mut j = cx.body(ldid, pbody);
                if let J::O(ref mut fields) = j {
                    let base = cx.key(ldid.to_def_id());
                    for f in fields.iter_mut() {
                        if f.0 == "key" {
                            f.1 = J::S(format!("{}::{{promoted#{}}}", base, pi.index()));
                        } else if f.0 == "kind" {
                            f.1 = J::s("Promoted");
                        } else if f.0 == "parent" {
                            f.1 = J::S(base.clone());
                        }
                    }
                    fields.retain(|f| f.0 != "coroutine");
                }
                bodies.push(j);
            }
        }
    }

    // ---- type tables
    let mut adts = vec![];
    let mut impls = vec![];
    let mut consts = vec![];
    let mut traits = vec![];
    let mut fns = vec![];
    let items = tcx.hir_crate_items(());
    for ldid in items.definitions() {
        let did = ldid.to_def_id();
        match tcx.def_kind(did) {
            DefKind::Struct | DefKind::Enum | DefKind::Union => {
                let adt = tcx.adt_def(did);
                let mut variants = vec![];
                for (vidx, v) in adt.variants().iter_enumerated() {
                    let mut vo = vec![("name", J::S(v.name.to_string()))];
                    if adt.is_enum() {
                        let d = adt.discriminant_for_variant(tcx, vidx);
                        vo.push(("discr", J::S(format!("{}", d.val))));
                    }
                    let mut fields = vec![];
                    for f in v.fields.iter() {
                        let fty = tcx.type_of(f.did).instantiate_identity().skip_normalization();
                        fields.push(J::O(vec![
                            ("name", J::S(f.name.to_string())),
                            ("ty", J::S(nt(fty))),
                            ("vis", J::S(format!("{:?}", f.vis))),
                        ]));
                    }
                    vo.push(("fields", J::A(fields)));
                    variants.push(J::O(vo));
                }
                adts.push(J::O(vec![
                    ("name", J::S(cx.pretty(did))),
                    ("key", J::S(cx.key(did))),
                    ("kind", J::S(format!("{:?}", tcx.def_kind(did)))),
                    ("loc", J::S(cx.loc(tcx.def_span(did)))),
                    ("variants", J::A(variants)),
                ]));
            }
            DefKind::Impl { .. } => {
                let st = tcx.type_of(did).instantiate_identity().skip_normalization();
                let mut o = vec![
                    ("key", J::S(cx.key(did))),
                    ("self", J::S(nt(st))),
                    ("loc", J::S(cx.loc(tcx.def_span(did)))),
                ];
                if let ty::Adt(adt, _) = st.kind() {
                    o.push(("self_adt", J::S(cx.pretty(adt.did()))));
                }
                if let Some(tr) = tcx.impl_opt_trait_ref(did) {
                    let tr = tr.instantiate_identity().skip_normalization();
                    o.push(("trait", J::S(cx.pretty(tr.def_id))));
                    o.push(("trait_ref", J::S(nt(tr))));
                }
                let mut its = vec![];
                for it in tcx.associated_items(did).in_definition_order() {
                    its.push(J::O(vec![
                        ("name", J::S(it.opt_name().map(|n| n.to_string()).unwrap_or_default())),
                        ("kind", J::S(format!("{:?}", it.tag()))),
                        ("key", J::S(cx.key(it.def_id))),
                    ]));
                }
                o.push(("items", J::A(its)));
                impls.push(J::O(o));
            }
            DefKind::Trait => {
                let mut its = vec![];
                for it in tcx.associated_items(did).in_definition_order() {
                    its.push(J::O(vec![
                        ("name", J::S(it.opt_name().map(|n| n.to_string()).unwrap_or_default())),
                        ("kind", J::S(format!("{:?}", it.tag()))),
                        ("key", J::S(cx.key(it.def_id))),
                    ]));
                }
                traits.push(J::O(vec![("name", J::S(cx.pretty(did))), ("items", J::A(its))]));
            }
            DefKind::Fn | DefKind::AssocFn => {
                let sig = tcx.fn_sig(did).instantiate_identity().skip_normalization();
                fns.push(J::O(vec![
                    ("key", J::S(cx.key(did))),
                    ("name", J::S(cx.pretty(did))),
                    ("sig", J::S(nt(sig))),
                    ("vis", J::S(if tcx.visibility(did).is_public() { "pub".to_string() } else { "restricted".to_string() })),
                    ("loc", J::S(cx.loc(tcx.def_span(did)))),
                ]));
            }
            _ => {}
        }
    }
    // ---- const values (after the bodies were dumped: evaluation steals mir_promoted)
    for ldid in items.definitions() {
        let did = ldid.to_def_id();
        let kind = tcx.def_kind(did);
        if !matches!(kind, DefKind::Const { .. } | DefKind::AssocConst { .. }) {
            continue;
        }
        if tcx.trait_of_assoc(did).is_some() {
            continue; // declaration inside a trait
        }
        if tcx.generics_of(did).requires_monomorphization(tcx) {
            continue;
        }
        let t = tcx.type_of(did).instantiate_identity().skip_normalization();
        let mut o = vec![
            ("key", J::S(cx.key(did))),
            ("name", J::S(cx.pretty(did))),
            ("ty", J::S(nt(t))),
            ("loc", J::S(cx.loc(tcx.def_span(did)))),
        ];
        if let Some(i) = tcx.trait_impl_of_assoc(did) {
            let st = tcx.type_of(i).instantiate_identity().skip_normalization();
            o.push(("impl_self", J::S(nt(st))));
            if let Some(tr) = tcx.impl_opt_trait_ref(i) {
                let tr = tr.instantiate_identity().skip_normalization();
                o.push(("impl_trait", J::S(cx.pretty(tr.def_id))));
            }
            o.push(("item", J::S(tcx.item_name(did).to_string())));
        }
        if let Ok(v) = tcx.const_eval_poly(did) {
            cx.const_value(v, t, &mut o);
        }
        consts.push(J::O(o));
    }

    let nb = bodies.len();
    let root = J::O(vec![
        ("crate", J::S(krate.clone())),
        ("crate_types", J::A(crate_types.iter().map(|s| J::S(s.clone())).collect())),
        ("is_test", J::B(is_test)),
        ("src_hash", J::S(std::env::var("PASSAGE_FACTS_HASH").unwrap_or_default())),
        ("cfg_label", J::S(std::env::var("PASSAGE_FACTS_LABEL").unwrap_or_default())),
        ("ctxts", J::A(std::mem::take(&mut cx.ctxt_table))),
        ("stolen", J::A(stolen)),
        ("bodies", J::A(bodies)),
        ("adts", J::A(adts)),
        ("impls", J::A(impls)),
        ("traits", J::A(traits)),
        ("fns", J::A(fns)),
        ("consts", J::A(consts)),
    ]);
    let mut s = String::with_capacity(1 << 22);
    root.write(&mut s);
    let kind = if is_test { "test".to_string() } else { crate_types.join("+").to_lowercase() };
    let sid = format!("{:x}", tcx.stable_crate_id(LOCAL_CRATE).as_u64());
    let path = format!("{}/{}.{}.{}.json", out_dir, krate, kind, &sid[..8.min(sid.len())]);
    let tmp = format!("{}.tmp{}", path, std::process::id());
    std::fs::write(&tmp, s).expect("write facts");
    std::fs::rename(&tmp, &path).expect("rename facts");
    eprintln!("passage-facts: {} bodies -> {}", nb, path);
    let _ = cx.krate;
}

struct Cb {
    out: Option<String>,
}

impl Callbacks for Cb {
    fn after_expansion<'tcx>(&mut self, _c: &rustc_interface::interface::Compiler, tcx: TyCtxt<'tcx>) -> Compilation {
        if let Some(out) = &self.out {
            dump(tcx, out);
        }
        Compilation::Continue
    }
}

fn main() {
    let mut args: Vec<String> = std::env::args().collect();
    // RUSTC_WORKSPACE_WRAPPER: argv[1] is the real rustc
    if args.len() > 1 && (args[1].ends_with("rustc") || args[1].contains("/rustc")) {
        args.remove(1);
    }
    let out = std::env::var("PASSAGE_FACTS_OUT").ok();
    // only dump for real compilations (not `rustc -vV` / --print probes)
    let probing = args.iter().any(|a| a == "-vV" || a.starts_with("--print") || a == "-V" || a == "--version");
    let mut cb = Cb { out: if probing { None } else { out } };
    rustc_driver::run_compiler(&args, &mut cb);
}

#!/bin/sh
# Run once in /verif after a fresh restore, offline: build the driver and warm the dependency target dir.
set -e
cd "$(dirname "$0")"
export CARGO_NET_OFFLINE=true
(cd driver && cargo +nightly build --release --offline)
python3 -m pv.extract default >/dev/null
echo "setup done"

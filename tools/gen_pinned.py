#!/usr/bin/env python3
"""Record which functions and constants exist on the pinned tree (spec/pinned.json). Anything NOT listed is
treated as introduced by a later edit: small synchronous helper functions are inlined into their callers and
constants are folded to their values before the rules run, so extracting a helper or naming a constant cannot
change a verdict. Identity is the pretty def path with generic arguments stripped."""
import json
import os
import sys
sys.path.insert(0, os.path.dirname(os.path.dirname(os.path.abspath(__file__))))
from pv import extract, ir, flow  # noqa: E402

d, h, info = extract.ensure_facts()
p = ir.Program(d)
fns = sorted(set(flow.short(b.name) for b in p.lib_bodies.values() if b.kind in ("Fn", "AssocFn")))
consts = sorted(set(flow.short(c["name"]) for c in p.consts.values()))
json.dump({"_comment": "functions and constants present on the pinned tree (pretty def paths, generics stripped)", "fns": fns, "consts": consts},
          open(os.path.join(os.path.dirname(os.path.dirname(os.path.abspath(__file__))), "spec", "pinned.json"), "w"), indent=0)
print(len(fns), "fns", len(consts), "consts")

#!/usr/bin/env python3
"""Record which functions and constants exist on the pinned tree (spec/pinned.json). Anything NOT listed is
treated as introduced by a later edit: small synchronous helper functions are inlined into their callers and
constants are folded to their values before the rules run, so extracting a helper or naming a constant cannot
change a verdict. Identity is the pretty def path with generic arguments stripped."""
import json
import os
import sys
sys.path.insert(0, os.path.dirname(os.path.dirname(os.path.abspath(__file__))))
from pv import extract, ir, flow  # noqa: E402

d, h, info = extract.ensure_facts()
p = ir.Program(d)
fns = sorted(set(flow.short(b.name) for b in p.lib_bodies.values() if b.kind in ("Fn", "AssocFn")))
consts = sorted(set(flow.short(c["name"]) for c in p.consts.values()))
sigs = {}
adt_fields = {}
async_fns = []
instrumented = []
for c in p.crates:
    if c.is_test:
        continue
    for f in c.fns:
        sigs[f["key"]] = f.get("sig", "")
    for a in c.adts:
        if a.get("kind") == "Struct" and a.get("variants"):
            adt_fields[a["key"]] = [[f["name"], f["ty"]] for f in a["variants"][0].get("fields", [])]
adts_shape = {}
for c in p.crates:
    if c.is_test:
        continue
    for a in c.adts:
        adts_shape[a["key"]] = [a.get("kind", ""), [[v.get("name", "")] + [f["name"] for f in v.get("fields", [])] for v in a.get("variants", [])]]
impls = {}
for c in p.crates:
    if c.is_test:
        continue
    for im in c.impls:
        impls[im["key"]] = [im.get("self", ""), im.get("trait", "") or ""]
keys = set(p.lib_bodies)
for k, b in sorted(p.lib_bodies.items()):
    if b.kind in ("Fn", "AssocFn") and (k + "::{closure#0}") in keys and p.lib_bodies[k + "::{closure#0}"].coroutine:
        async_fns.append(k)
        inner = k + "::{closure#0}::{closure#0}"
        if inner in keys and p.lib_bodies[inner].coroutine and "nstrument" in json.dumps(p.lib_bodies[k + "::{closure#0}"].j["blocks"]):
            instrumented.append(k)
json.dump({"_comment": "functions and constants present on the pinned tree (pretty def paths, generics stripped); signatures, struct fields and "
                       "which async fns are #[instrument]ed, used to undo pure renamings (pv/canon.py)",
           "impls": impls, "adts": adts_shape,
           "closures": sorted(k for k, b in p.lib_bodies.items() if b.kind == "Closure"),
           "fns": fns, "consts": consts, "sigs": sigs, "adt_fields": adt_fields, "async_fns": async_fns, "instrumented": instrumented},
          open(os.path.join(os.path.dirname(os.path.dirname(os.path.abspath(__file__))), "spec", "pinned.json"), "w"), indent=0)
print(len(fns), "fns", len(consts), "consts")

#!/usr/bin/env python3
"""Regenerate MANIFEST.json from the per-property table below (kept in one place so it stays valid)."""
import json
import os
import sys

VERIF = os.path.dirname(os.path.dirname(os.path.abspath(__file__)))
sys.path.insert(0, VERIF)

BASELINE = ("cd /repo && (cargo nextest run --workspace --no-fail-fast --tool-config-file pb:/w/lib/nextest.toml "
            "--profile pb --test-threads 8 --offline || cargo test --workspace --no-fail-fast --offline)")

# id -> (technique, level text, level note, design ref)
CLAIMED = {}
NOT_YET = {}


def claim(pid, technique, text, note, ref):
    CLAIMED[pid] = (technique, text, note, ref)


def load_table():
    import importlib
    for i in range(1, 21):
        pid = "C%02d" % i
        try:
            m = importlib.import_module("pv.rules.%s" % pid.lower())
        except ImportError:
            NOT_YET[pid] = "static check for this property is not built yet in this revision of /verif (see DESIGN.md §10 build order)"
            continue
        if getattr(m, "NOT_APPLICABLE", None):
            NOT_YET[pid] = m.NOT_APPLICABLE
            continue
        claim(pid, getattr(m, "TECHNIQUE", "static analysis over rustc MIR (custom rustc_private driver + rule engine)"),
              getattr(m, "LEVEL_TEXT", m.EXPLANATION),
              "Decides the structural clauses listed in the evidence (decided_clauses); not decided: "
              + "; ".join(getattr(m, "UNDECIDED", [])) + ". Trusted: " + "; ".join(getattr(m, "TRUSTED", []))
              + "; rustc MIR construction; the driver and rule engine (self-validated by seeded mutants, DESIGN §7).",
              "DESIGN.md §5 %s" % pid)


def main():
    load_table()
    checks = []
    for pid in sorted(CLAIMED):
        tech, text, note, ref = CLAIMED[pid]
        checks.append({
            "property_id": pid,
            "quick_cmd": "./check %s --tier quick" % pid,
            "thorough_cmd": "./check %s --tier thorough" % pid,
            "evidence_file": "/verif/evidence/%s.json" % pid,
            "replay_cmd_template": "./check %s --replay {path}" % pid,
            "engine": "passage-facts+pv",
            "level_claimed": {"category": "other", "text": text, "design_ref": ref},
            "level_note": note,
            "technique": tech,
        })
    man = {
        "version": 1,
        "setup_cmd": "./setup.sh",
        "hooks": {
            "guard": "passage_verif",
            "enable": "none needed: the checks read the unmodified build through a rustc wrapper "
                      "(RUSTC_WORKSPACE_WRAPPER=driver/target/release/passage-facts cargo +nightly check); "
                      "--cfg passage_verif is reserved and unused",
            "baseline_off_cmd": BASELINE,
            "source_commits": [],
            "add_only": True,
        },
        "engines": [
            {"name": "passage-facts", "path": "driver/", "serves_properties": sorted(CLAIMED),
             "kind_free_text": "rustc_private driver (nightly) dumping pre-coroutine-transform MIR, resolved callees, "
                               "type/impl/const tables as JSON for every workspace crate"},
            {"name": "pv", "path": "pv/", "serves_properties": sorted(CLAIMED),
             "kind_free_text": "python3 static-analysis library: flag-refined CFG cut queries (must-pass-through), "
                               "backward value provenance / expression trees, event scripts, effect analyses, "
                               "table agreement; one rule module per property under pv/rules/"},
        ],
        "checks": checks,
        "notes": "Technique family: static analysis only. Nothing in a registered command runs passage or its tests. "
                 "Genuine defects repaired in /repo are listed in known_findings.json under 'fixed'. "
                 "A line 'UNDECIDED: property=<id> <instance> ...' (exit 0) means a clause could not be examined because the code "
                 "it is about is written in a way no recogniser of that rule covers (DESIGN.md section 14); it is listed under "
                 "coverage.undecided in the evidence and is neither a pass nor an alarm.",
        "not_applicable": [{"property_id": p, "reason": r} for p, r in sorted(NOT_YET.items())],
    }
    with open(os.path.join(VERIF, "MANIFEST.json"), "w") as fh:
        json.dump(man, fh, indent=1)
    print("claimed:", sorted(CLAIMED), "not claimed:", sorted(NOT_YET))


if __name__ == "__main__":
    main()

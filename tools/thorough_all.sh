#!/bin/sh
# run the thorough tier of every property (long: self-validation applies every mutant/seed/benign patch)
cd "$(dirname "$0")/.."
./setup.sh >/dev/null 2>&1
rc=0
for i in 01 02 03 04 05 06 07 08 09 10 11 12 13 14 15 16 17 18 19 20; do
  ./check C$i --tier thorough > /tmp/thorough_C$i.log 2>&1
  c=$?
  echo "C$i exit=$c $(grep 'self-validation' /tmp/thorough_C$i.log | cut -c1-160)"
  grep "SELFTEST:" /tmp/thorough_C$i.log | cut -c1-300
  [ $c -ne 0 ] && rc=1
done
exit $rc

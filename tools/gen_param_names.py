#!/usr/bin/env python3
"""Record the parameter names of every workspace fn by position (spec/param_names.json). Rules refer to
parameters by these canonical names; at analysis time a parameter is identified by its POSITION, so a
rename of a parameter does not change any verdict."""
import json
import os
import sys
sys.path.insert(0, os.path.dirname(os.path.dirname(os.path.abspath(__file__))))
from pv import extract, ir  # noqa: E402

d, h, info = extract.ensure_facts()
p = ir.Program(d)
out = {}
for k, b in sorted(p.lib_bodies.items()):
    if b.kind in ("Fn", "AssocFn") and b.arg_count:
        names = [b.local_name(i) for i in range(1, b.arg_count + 1)]
        if all(names):
            out[k] = names
json.dump({"_comment": "fn key -> parameter names by position on the pinned tree (canonical names used by the rules)", "fns": out},
          open(os.path.join(os.path.dirname(os.path.dirname(os.path.abspath(__file__))), "spec", "param_names.json"), "w"), indent=0)
print(len(out), "functions")

# captured variables of closures / async blocks: what each one holds, by source path
from pv import flow  # noqa: E402
p._upvar_spec = {}
ups = {}
for k, b in sorted(p.lib_bodies.items()):
    if b.kind not in ("Fn", "AssocFn") and b.parent:
        src = flow.upvar_sources(p, b)
        m = {}
        dup = set()
        for n, sp in src.items():
            if sp is None:
                continue
            if sp in m:
                dup.add(sp)
            m[sp] = n
        for d_ in dup:
            m.pop(d_, None)
        if m:
            ups[k] = m
json.dump({"_comment": "closure key -> {source path of the captured value: captured-variable name on the pinned tree}", "closures": ups},
          open(os.path.join(os.path.dirname(os.path.dirname(os.path.abspath(__file__))), "spec", "upvar_names.json"), "w"), indent=0)
print(len(ups), "closures with captured variables")

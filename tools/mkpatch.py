#!/usr/bin/env python3
"""mkpatch.py <out.diff> <repo-relative file> <<< JSON [[old,new],...]  — build a unified diff from
exact string replacements against /repo's current file (each `old` must occur exactly once)."""
import difflib
import json
import sys

out, rel = sys.argv[1], sys.argv[2]
pairs = json.load(sys.stdin)
src = open("/repo/" + rel).read()
dst = src
for old, new in pairs:
    if dst.count(old) != 1:
        raise SystemExit("pattern occurs %d times: %r" % (dst.count(old), old[:80]))
    dst = dst.replace(old, new)
d = difflib.unified_diff(src.splitlines(True), dst.splitlines(True), "a/" + rel, "b/" + rel)
mode = "a" if len(sys.argv) > 3 and sys.argv[3] == "--append" else "w"
open(out, mode).write("".join(d))
print("wrote", out)

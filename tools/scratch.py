#!/usr/bin/env python3
"""scratch.py <patch> : copy /repo to a temp dir, apply patch, extract facts; prints the facts dir and temp dir
(caller removes the temp dir). For debugging rules against a variant."""
import os, sys
VERIF = os.path.dirname(os.path.dirname(os.path.abspath(__file__)))
sys.path.insert(0, VERIF); sys.path.insert(0, os.path.join(VERIF, "tools"))
import mutant
from pv import extract
d, dst = mutant.make_copy(sys.argv[1])
f, h, info = extract.ensure_facts("default", repo=dst, cache_root=os.path.join(d, "cache"))
print(d, f, info.get("returncode"))

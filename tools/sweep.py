#!/usr/bin/env python3
"""Run many patches against many checks in parallel lanes (each lane has its own copy of the dependency target dir).
usage: tools/sweep.py [--lanes N] [--props ALL|C01,C02] [--own] <patch>...
--own: run each patch only against the property named by its directory (selftest/<ID>/...) or meta.json.
Prints one line per patch: <patch> <prop>=<exit>:<keys> for every non-zero exit (or 'silent')."""
import argparse, json, os, shutil, subprocess, sys, tempfile
from concurrent.futures import ThreadPoolExecutor
VERIF = os.path.dirname(os.path.dirname(os.path.abspath(__file__)))


def own_prop(p):
    parts = os.path.relpath(os.path.abspath(p), VERIF).split(os.sep)
    if parts[0] == "selftest" and parts[1].startswith("C") and len(parts[1]) == 3:
        return parts[1]
    if parts[0] == "selftest" and parts[1] == "composed":
        return parts[2].split("_")[0]
    m = os.path.join(os.path.dirname(p), "meta.json")
    if os.path.exists(m):
        return json.load(open(m))["property"]
    return None


def one(args):
    patch, props, lane = args
    code = ("import sys,json; sys.path.insert(0,%r); sys.path.insert(0,%r+'/tools'); import mutant\n"
            "try:\n r=mutant.run_on_patch(%r,%r,target_dir=%r)\n print(json.dumps({p:[c,k] for p,(c,k,_) in r.items()}))\n"
            "except SystemExit as e:\n print(json.dumps({'stale':[9,[str(e)[:200]]]}))\n") % (VERIF, VERIF, patch, props, lane)
    r = subprocess.run([sys.executable, "-c", code], stdout=subprocess.PIPE, stderr=subprocess.PIPE, text=True)
    try:
        return patch, json.loads(r.stdout.strip().splitlines()[-1])
    except Exception:
        return patch, {"crash": [9, [r.stderr[-300:]]]}


def run_jobs(jobs, lanes=4):
    """jobs: [(patch, [props])] -> {patch: {prop: [exit, keys]}} using `lanes` private copies of the dependency target dir"""
    import queue
    base = os.path.join(VERIF, ".cache", "target")
    root = tempfile.mkdtemp(prefix="pv-sweep-")
    q = queue.Queue()
    for i in range(max(1, min(lanes, len(jobs)))):
        d = os.path.join(root, "t%d" % i)
        if os.path.isdir(base):
            subprocess.check_call(["cp", "-a", base, d])
        q.put(d)

    def work(j):
        l = q.get()
        try:
            return one((os.path.abspath(j[0]), j[1], l))
        finally:
            q.put(l)
    out = {}
    try:
        with ThreadPoolExecutor(max(1, min(lanes, len(jobs)))) as ex:
            for patch, res in ex.map(work, jobs):
                out[patch] = res
    finally:
        shutil.rmtree(root, ignore_errors=True)
    return out


def main():
    ap = argparse.ArgumentParser()
    ap.add_argument("--lanes", type=int, default=4)
    ap.add_argument("--props", default="ALL")
    ap.add_argument("--own", action="store_true")
    ap.add_argument("patches", nargs="+")
    a = ap.parse_args()
    allp = ["C%02d" % i for i in range(1, 21)]
    base = os.path.join(VERIF, ".cache", "target")
    lanes = []
    root = tempfile.mkdtemp(prefix="pv-sweep-")
    for i in range(a.lanes):
        d = os.path.join(root, "t%d" % i)
        subprocess.check_call(["cp", "-a", base, d])
        lanes.append(d)
    jobs = []
    for i, p in enumerate(a.patches):
        props = [own_prop(p)] if a.own else (allp if a.props.upper() == "ALL" else a.props.upper().split(","))
        jobs.append((os.path.abspath(p), props, None))
    # lane assignment: worker threads pick a free lane
    import queue
    q = queue.Queue()
    for l in lanes:
        q.put(l)

    def work(j):
        l = q.get()
        try:
            return one((j[0], j[1], l))
        finally:
            q.put(l)
    try:
        with ThreadPoolExecutor(a.lanes) as ex:
            for patch, res in ex.map(work, jobs):
                bad = {p: v for p, v in res.items() if v[0] != 0}
                name = os.path.relpath(patch, VERIF)
                if not bad:
                    print("%-60s silent" % name, flush=True)
                else:
                    print("%-60s %s" % (name, " ".join("%s=%d:%s" % (p, v[0], ",".join(v[1][:3])) for p, v in bad.items())), flush=True)
    finally:
        shutil.rmtree(root, ignore_errors=True)


if __name__ == "__main__":
    main()

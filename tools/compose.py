#!/usr/bin/env python3
"""compose.py <base.diff> <out.diff> <<< JSON [[relfile, old, new], ...]
Build a patch = base refactoring + further exact replacements on top of it (for 'refactor, then break' self-tests)."""
import json, os, shutil, subprocess, sys, tempfile
base, out = sys.argv[1], sys.argv[2]
pairs = json.load(sys.stdin)
d = tempfile.mkdtemp(prefix="pv-compose-")
try:
    for x in ("a", "b"):
        subprocess.check_call(["rsync", "-a", "--exclude", "target", "--exclude", ".git", "/repo/", os.path.join(d, x) + "/"])
    subprocess.check_call(["patch", "-p1", "-s", "-i", os.path.abspath(base)], cwd=os.path.join(d, "b"))
    for rel, old, new in pairs:
        p = os.path.join(d, "b", rel)
        s = open(p).read()
        if s.count(old) != 1:
            raise SystemExit("pattern occurs %d times in %s: %r" % (s.count(old), rel, old[:80]))
        open(p, "w").write(s.replace(old, new))
    r = subprocess.run(["diff", "-ruN", "a", "b"], cwd=d, stdout=subprocess.PIPE, text=True)
    open(out, "w").write(r.stdout)
    print("wrote", out, len(r.stdout.splitlines()), "lines")
finally:
    shutil.rmtree(d, ignore_errors=True)

#!/usr/bin/env python3-vt
"""Validate MANIFEST.json and evidence/*.json against the schemas (uses the tooling venv's jsonschema)."""
import glob
import json
import sys
import jsonschema

m = json.load(open('/verif/MANIFEST.json'))
jsonschema.validate(m, json.load(open('/root/.vp/MANIFEST.schema.json')))
print('manifest ok: %d checks, %d not_applicable' % (len(m['checks']), len(m.get('not_applicable', []))))
es = json.load(open('/root/.vp/EVIDENCE.schema.json'))
bad = 0
for f in sorted(glob.glob('/verif/evidence/C??.json')):
    try:
        jsonschema.validate(json.load(open(f)), es)
    except Exception as e:
        bad += 1
        print('INVALID', f, str(e)[:300])
print('evidence files valid' if not bad else '%d invalid' % bad)
sys.exit(1 if bad else 0)

#!/usr/bin/env python3
"""seed_check.py [name ...] — apply each /verif/seeded/<name>/patch.diff to /repo, run the property's check (and
optionally all checks), undo, and report which checks catch it."""
import json
import os
import subprocess
import sys

names = sys.argv[1:] or sorted(os.listdir("/verif/seeded"))
allp = os.environ.get("ALL") == "1"
rows = []
for n in names:
    d = os.path.join("/verif/seeded", n)
    if not os.path.exists(os.path.join(d, "patch.diff")):
        continue
    meta = json.load(open(os.path.join(d, "meta.json")))
    prop = meta["property"]
    assert subprocess.run(["git", "-C", "/repo", "status", "--porcelain"], stdout=subprocess.PIPE, text=True).stdout.strip() == "", "/repo not clean"
    subprocess.check_call(["git", "-C", "/repo", "apply", os.path.join(d, "patch.diff")])
    try:
        props = ["C%02d" % i for i in range(1, 21)] if allp else [prop]
        caught = {}
        for p in props:
            r = subprocess.run(["./check", p], cwd="/verif", stdout=subprocess.PIPE, stderr=subprocess.STDOUT, text=True)
            keys = [l.split("key=")[1].split(" site=")[0] for l in r.stdout.splitlines() if l.startswith("FINDING")]
            if r.returncode not in (0, 1):
                keys = ["<checker exit %d>" % r.returncode]
            if keys:
                caught[p] = keys
    finally:
        subprocess.check_call(["git", "-C", "/repo", "checkout", "--", "."])
    rows.append((n, prop, caught))
    print("%-40s %s %s" % (n, prop, "CAUGHT " + json.dumps(caught)[:400] if caught.get(prop) else ("MISSED (own check silent) other=" + json.dumps(caught)[:200])))
    meta["caught_by"] = caught
    json.dump(meta, open(os.path.join(d, "meta.json"), "w"), indent=1)
# restore evidence for the unchanged tree
for p in sorted(set(r[1] for r in rows)):
    subprocess.run(["./check", p], cwd="/verif", stdout=subprocess.DEVNULL)

#!/usr/bin/env python3
"""seed_verify.py <PROP> <worktree> <outdir>  — confirm a seeded change independently:
 (i) existing suite passes with patch.diff, (ii) demo fails with the patch, (iii) demo passes without it.
Then copy patch.diff / demo.diff / NOTES.md into /verif/seeded/<name>/ with a meta.json."""
import json
import os
import re
import subprocess
import sys

prop, wt, out = sys.argv[1], sys.argv[2], sys.argv[3]
name = sys.argv[4] if len(sys.argv) > 4 else prop.lower() + "_agent"
env = dict(os.environ, CARGO_NET_OFFLINE="true")


def sh(cmd, cwd=wt, check=False):
    r = subprocess.run(cmd, cwd=cwd, shell=True, env=env, stdout=subprocess.PIPE, stderr=subprocess.STDOUT, text=True)
    if check and r.returncode != 0:
        print(r.stdout[-3000:])
        raise SystemExit("command failed: " + cmd)
    return r.returncode, r.stdout


def reset():
    sh("git checkout -q -- . && git clean -fdq -e target", check=True)


def demo_cmd(demo_diff):
    txt = open(demo_diff).read()
    new = re.findall(r"^\+\+\+ b/(\S+)", txt, re.M)
    cmds = []
    for f in new:
        m = re.match(r"(passage-[\w/-]+|\.)?/?tests/(\w+)\.rs$", f)
        if m:
            d = (m.group(1) or "").strip("/")
            pkg = {"passage-protocol": "passage-protocol", "passage-packets": "passage-packets", "passage-adapters": "passage-adapters",
                   "passage-adapters/http": "passage-adapters-http", "passage-adapters/grpc": "passage-adapters-grpc",
                   "passage-adapters/agones": "passage-adapters-agones", "passage-adapters/dns": "passage-adapters-dns"}.get(d, None)
            cmds.append("cargo test --offline %s --test %s 2>&1 | tail -40" % ("-p " + pkg if pkg else "", m.group(2)))
    return cmds, new


reset()
patch = os.path.join(out, "patch.diff")
demo = os.path.join(out, "demo.diff")
sh("git apply --check %s" % patch, check=True)
sh("git apply --check %s" % demo, check=True)
res = {}
# (i) suite with the change
sh("git apply %s" % patch, check=True)
rc, o = sh("(cargo nextest run --workspace --no-fail-fast --tool-config-file pb:/w/lib/nextest.toml --profile pb --test-threads 8 --offline 2>&1 || true) | tail -5")
m = re.search(r"(\d+) tests run: (\d+) passed", o)
res["suite_with_change"] = o.strip().splitlines()[-1] if o.strip() else ""
suite_ok = bool(m) and m.group(1) == m.group(2) and int(m.group(1)) >= 77
# (ii) demo with the change
sh("git apply %s" % demo, check=True)
cmds, newfiles = demo_cmd(demo)
custom = os.environ.get("DEMO_CMD")
if custom:
    cmds = [custom]
if not cmds:
    raise SystemExit("cannot derive demo command from %s (new files %s); set DEMO_CMD" % (demo, newfiles))
rc1, o1 = sh(" && ".join("(%s)" % c for c in cmds))
fail_with = ("test result: FAILED" in o1) or ("FAILED" in o1 and "failed" in o1) or "error: test failed" in o1 or "panicked" in o1
res["demo_with_change"] = o1.strip().splitlines()[-3:]
# (iii) demo without the change
sh("git apply -R %s" % patch, check=True)
rc2, o2 = sh(" && ".join("(%s)" % c for c in cmds))
pass_without = "test result: ok" in o2 and "FAILED" not in o2
res["demo_without_change"] = o2.strip().splitlines()[-3:]
reset()
ok = suite_ok and fail_with and pass_without
print(json.dumps({"suite_ok": suite_ok, "demo_fails_with": fail_with, "demo_passes_without": pass_without, "cmds": cmds}, indent=1))
if not ok:
    print(json.dumps(res, indent=1)[:3000])
    raise SystemExit(1)
dst = os.path.join("/verif/seeded", name)
os.makedirs(dst, exist_ok=True)
for f in ("patch.diff", "demo.diff", "NOTES.md"):
    if os.path.exists(os.path.join(out, f)):
        subprocess.check_call(["cp", os.path.join(out, f), os.path.join(dst, f)])
notes = open(os.path.join(out, "NOTES.md")).read() if os.path.exists(os.path.join(out, "NOTES.md")) else ""
meta = {"property": prop, "origin": "independent sub-agent given only the property text and a scratch worktree",
        "needs_to_manifest": "see NOTES.md", "confirmed": res, "demo_commands": cmds,
        "what_i_ran": ["git apply patch.diff; baseline suite (nextest, 77 tests) -> all pass", "git apply demo.diff; demo command -> FAILS",
                       "git apply -R patch.diff; demo command -> passes"],
        "base_commit": subprocess.check_output(["git", "-C", wt, "rev-parse", "--short", "HEAD"], text=True).strip()}
json.dump(meta, open(os.path.join(dst, "meta.json"), "w"), indent=1)
print("stored in", dst)

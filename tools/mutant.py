#!/usr/bin/env python3
"""Run checks against a scratch copy of /repo with a patch applied (checker self-validation, DESIGN §7).

usage: tools/mutant.py <patch.diff> <PROP>[,<PROP>...] [--expect-key SUBSTR] [--benign]
The scratch copy lives under $TMPDIR (outside /repo and /verif) and is deleted afterwards, together with
the facts extracted from it. The dependency target dir is shared (only workspace members rebuild)."""
import argparse
import os
import shutil
import subprocess
import sys
import tempfile

VERIF = os.path.dirname(os.path.dirname(os.path.abspath(__file__)))
sys.path.insert(0, VERIF)
from pv import core, extract  # noqa: E402


def make_copy(patch, src="/repo"):
    d = tempfile.mkdtemp(prefix="pv-mut-")
    dst = os.path.join(d, "repo")
    subprocess.check_call(["rsync", "-a", "--exclude", "target", "--exclude", ".git", src + "/", dst + "/"])
    if patch:
        r = subprocess.run(["patch", "-p1", "-s", "-i", os.path.abspath(patch)], cwd=dst,
                           stdout=subprocess.PIPE, stderr=subprocess.STDOUT, text=True)
        if r.returncode != 0:
            shutil.rmtree(d, ignore_errors=True)
            raise SystemExit("patch does not apply: %s\n%s" % (patch, r.stdout))
    return d, dst


def run_on_patch(patch, props, quiet=True, target_dir=None):
    d, dst = make_copy(patch)
    res = {}
    try:
        cache_root = os.path.join(d, "cache")
        for p in props:
            code, new, ev = core.run(p, "quick", repo=dst, quiet=quiet, write_evidence=False,
                                     cache_root=cache_root, target_dir=target_dir)
            res[p] = (code, [f.key for f in new], [f.reason for f in new])
    finally:
        shutil.rmtree(d, ignore_errors=True)
    return res


def main():
    ap = argparse.ArgumentParser()
    ap.add_argument("patch")
    ap.add_argument("props")
    ap.add_argument("--expect-key", default=None)
    ap.add_argument("--benign", action="store_true")
    ap.add_argument("-v", action="store_true")
    a = ap.parse_args()
    props = ["C%02d" % i for i in range(1, 21)] if a.props.upper() == "ALL" else [p.upper() for p in a.props.split(",")]
    res = run_on_patch(a.patch, props, quiet=not a.v)
    bad = False
    for p, (code, keys, reasons) in res.items():
        print("%s exit=%d findings=%s" % (p, code, keys))
        for r in reasons[:5]:
            print("    " + r[:300])
        if a.benign and code != 0:
            bad = True
        if not a.benign and a.expect_key is not None and not any(a.expect_key in k for k in keys):
            bad = True
    sys.exit(1 if bad else 0)


if __name__ == "__main__":
    main()
